/*
 * Differential behaviour driver for libeconf (public API only).
 *
 * usage: driver <data-dir> <work-dir> <group> [<argument>]
 *        driver list <data-dir>        prints "<group> [<argument>]" lines
 *
 * Prints everything observable through the public API in a canonical form:
 * paths below <data-dir> are printed as $D/..., paths below <work-dir> as
 * $W/..., no pointers, no time stamps.
 */
#ifndef _GNU_SOURCE
#define _GNU_SOURCE
#endif
#include <dirent.h>
#include <errno.h>
#include <float.h>
#include <inttypes.h>
#include <limits.h>
#include <math.h>
#include <pthread.h>
#include <stdarg.h>
#include <stdbool.h>
#include <stdint.h>
#include <stdio.h>
#include <stdlib.h>
#include <string.h>
#include <sys/stat.h>
#include <sys/types.h>
#include <unistd.h>

#include "libeconf.h"
#include "libeconf_ext.h"

#pragma GCC diagnostic ignored "-Wdeprecated-declarations"

static char D[PATH_MAX];	/* data dir (realpath) */
static char W[PATH_MAX];	/* work dir (realpath) */
static size_t Dl, Wl;

/* ------------------------------------------------------------------ */
/* output helpers                                                     */
/* ------------------------------------------------------------------ */

static uint32_t fnv(const char *s, size_t n)
{
  uint32_t h = 2166136261u;
  for (size_t i = 0; i < n; i++) {
    h ^= (unsigned char)s[i];
    h *= 16777619u;
  }
  return h;
}

static void pesc_n(const char *s, size_t n)
{
  for (size_t i = 0; i < n; i++) {
    unsigned char c = (unsigned char)s[i];
    if (c == '\\')
      fputs("\\\\", stdout);
    else if (c == '"')
      fputs("\\\"", stdout);
    else if (c == '\n')
      fputs("\\n", stdout);
    else if (c == '\t')
      fputs("\\t", stdout);
    else if (c == '\r')
      fputs("\\r", stdout);
    else if (c < 0x20 || c >= 0x7f)
      printf("\\x%02x", c);
    else
      putchar(c);
  }
}

#define ABBREV 200
/* escaped, quoted; long strings are abbreviated to head + length + hash + tail */
static void pbytes(const char *s, size_t n)
{
  putchar('"');
  if (n <= ABBREV)
    pesc_n(s, n);
  else {
    pesc_n(s, 60);
    printf("...(len=%zu,fnv=%08x)...", n, fnv(s, n));
    pesc_n(s + n - 30, 30);
  }
  putchar('"');
}

/* replace the data/work dir prefix; result in a rotating buffer */
static const char *rel(const char *p)
{
  static char *bufs[8];
  static int idx;
  if (p == NULL)
    return NULL;
  idx = (idx + 1) % 8;
  free(bufs[idx]);
  bufs[idx] = NULL;
  const char *rest = NULL, *tag = NULL;
  if (Wl && strncmp(p, W, Wl) == 0 && (p[Wl] == '/' || p[Wl] == 0)) {
    tag = "$W"; rest = p + Wl;
  } else if (Dl && strncmp(p, D, Dl) == 0 && (p[Dl] == '/' || p[Dl] == 0)) {
    tag = "$D"; rest = p + Dl;
  } else {
    tag = ""; rest = p;
  }
  if (asprintf(&bufs[idx], "%s%s", tag, rest) < 0)
    abort();
  return bufs[idx];
}

static void pstr(const char *s)
{
  if (s == NULL)
    fputs("NULL", stdout);
  else
    pbytes(s, strlen(s));
}

static void ppath(const char *s)
{
  pstr(rel(s));
}

static void pchr(char c)
{
  char b[2] = { c, 0 };
  putchar('\'');
  pesc_n(b, 1);
  putchar('\'');
}

static void prc(econf_err e)
{
  printf("rc=%d/%s", (int)e, econf_errString(e));
}

/* path helpers: rotating buffers of allocated strings */
static const char *mk(const char *fmt, ...)
{
  static char *bufs[256];
  static int idx;
  va_list ap;
  idx = (idx + 1) % 256;
  free(bufs[idx]);
  bufs[idx] = NULL;
  va_start(ap, fmt);
  if (vasprintf(&bufs[idx], fmt, ap) < 0)
    abort();
  va_end(ap);
  return bufs[idx];
}

static void perrloc(void)
{
  char *fn = NULL;
  uint64_t line = 12345678;
  econf_errLocation(&fn, &line);
  printf("  errloc file=");
  ppath(fn);
  printf(" line=%" PRIu64 "\n", line);
  free(fn);
}

static void pfloat(float f)
{
  if (isnan(f))
    fputs("nan", stdout);
  else {
    uint32_t b;
    memcpy(&b, &f, sizeof b);
    printf("%a/%08" PRIx32, (double)f, b);
  }
}

static void pdouble(double d)
{
  if (isnan(d))
    fputs("nan", stdout);
  else {
    uint64_t b;
    memcpy(&b, &d, sizeof b);
    printf("%a/%016" PRIx64, d, b);
  }
}

/* ------------------------------------------------------------------ */
/* dumping an econf_file                                              */
/* ------------------------------------------------------------------ */

static void pcode(econf_err e)
{
  if (e == ECONF_SUCCESS)
    putchar('0');
  else
    printf("E%d", (int)e);
}

/* all getters on one key */
static void dump_key(econf_file *kf, const char *grp, const char *key, int full)
{
  econf_err e;

  printf("    key ");
  pstr(grp);
  putchar(' ');
  pstr(key);
  printf(":\n");

  char *s = NULL;
  e = econf_getStringValue(kf, grp, key, &s);
  printf("      str="); pcode(e); putchar(':'); pstr(s);
  free(s);
  int32_t i32 = 0x5a5a5a5a;
  e = econf_getIntValue(kf, grp, key, &i32);
  printf(" int="); pcode(e); printf(":%" PRId32, i32);
  int64_t i64 = 0x5a5a5a5a5a5a5a5aLL;
  e = econf_getInt64Value(kf, grp, key, &i64);
  printf(" i64="); pcode(e); printf(":%" PRId64, i64);
  uint32_t u32 = 0x5a5a5a5a;
  e = econf_getUIntValue(kf, grp, key, &u32);
  printf(" u32="); pcode(e); printf(":%" PRIu32, u32);
  uint64_t u64 = 0x5a5a5a5a5a5a5a5aULL;
  e = econf_getUInt64Value(kf, grp, key, &u64);
  printf(" u64="); pcode(e); printf(":%" PRIu64, u64);
  float f = 123.5f;
  e = econf_getFloatValue(kf, grp, key, &f);
  printf(" flt="); pcode(e); putchar(':'); pfloat(f);
  double d = 321.25;
  e = econf_getDoubleValue(kf, grp, key, &d);
  printf(" dbl="); pcode(e); putchar(':'); pdouble(d);
  bool b = true;
  e = econf_getBoolValue(kf, grp, key, &b);
  printf(" bool="); pcode(e); printf(":%d", (int)b);
  bool b2 = false;
  e = econf_getBoolValue(kf, grp, key, &b2);
  printf("/%d\n", (int)b2);

  econf_ext_value *ev = NULL;
  e = econf_getExtValue(kf, grp, key, &ev);
  printf("      ext="); pcode(e);
  if (e == ECONF_SUCCESS && ev != NULL) {
    printf(" line=%" PRIu64 " file=", ev->line_number);
    ppath(ev->file);
    printf(" before="); pstr(ev->comment_before_key);
    printf(" after="); pstr(ev->comment_after_value);
    printf(" values=[");
    if (ev->values == NULL)
      printf("NULL");
    else
      for (size_t i = 0; ev->values[i] != NULL; i++) {
	if (i) putchar(',');
	pstr(ev->values[i]);
      }
    printf("]");
    econf_freeExtValue(ev);
  }
  putchar('\n');

  if (!full)
    return;

  /* the *Def getters with distinctive defaults */
  printf("      def:");
  s = NULL;
  e = econf_getStringValueDef(kf, grp, key, &s, (char *)"DEFSTR");
  printf(" str="); pcode(e); putchar(':'); pstr(s);
  free(s);
  i32 = 1;
  e = econf_getIntValueDef(kf, grp, key, &i32, -77777);
  printf(" int="); pcode(e); printf(":%" PRId32, i32);
  i64 = 1;
  e = econf_getInt64ValueDef(kf, grp, key, &i64, -7777777777LL);
  printf(" i64="); pcode(e); printf(":%" PRId64, i64);
  u32 = 1;
  e = econf_getUIntValueDef(kf, grp, key, &u32, 4000000001u);
  printf(" u32="); pcode(e); printf(":%" PRIu32, u32);
  u64 = 1;
  e = econf_getUInt64ValueDef(kf, grp, key, &u64, 18000000000000000001ULL);
  printf(" u64="); pcode(e); printf(":%" PRIu64, u64);
  f = 1.0f;
  e = econf_getFloatValueDef(kf, grp, key, &f, 1.5f);
  printf(" flt="); pcode(e); putchar(':'); pfloat(f);
  d = 1.0;
  e = econf_getDoubleValueDef(kf, grp, key, &d, -2.25);
  printf(" dbl="); pcode(e); putchar(':'); pdouble(d);
  b = false;
  e = econf_getBoolValueDef(kf, grp, key, &b, true);
  printf(" bool="); pcode(e); printf(":%d\n", (int)b);

  /* the group name with brackets denotes the same section */
  if (grp != NULL && *grp && grp[0] != '[') {
    const char *bg = mk("[%s]", grp);
    s = NULL;
    e = econf_getStringValue(kf, bg, key, &s);
    printf("      bracketed: str="); pcode(e); putchar(':'); pstr(s);
    free(s);
    i64 = 7;
    e = econf_getInt64ValueDef(kf, bg, key, &i64, -42);
    printf(" i64def="); pcode(e); printf(":%" PRId64 "\n", i64);
  }
}

/* getters on keys/groups which do not exist */
static void dump_missing(econf_file *kf, const char *grp)
{
  econf_err e;
  char *s = NULL;
  printf("    missing in "); pstr(grp); printf(":");
  e = econf_getStringValue(kf, grp, "no-such-key", &s);
  printf(" str="); pcode(e); putchar(':'); pstr(s); free(s);
  s = NULL;
  e = econf_getStringValueDef(kf, grp, "no-such-key", &s, (char *)"DEFSTR");
  printf(" strdef="); pcode(e); putchar(':'); pstr(s); free(s);
  int32_t i32 = 1;
  e = econf_getIntValueDef(kf, grp, "no-such-key", &i32, -77777);
  printf(" int="); pcode(e); printf(":%" PRId32, i32);
  int64_t i64 = 1;
  e = econf_getInt64ValueDef(kf, grp, "no-such-key", &i64, -7777777777LL);
  printf(" i64="); pcode(e); printf(":%" PRId64, i64);
  uint32_t u32 = 1;
  e = econf_getUIntValueDef(kf, grp, "no-such-key", &u32, 4000000001u);
  printf(" u32="); pcode(e); printf(":%" PRIu32, u32);
  uint64_t u64 = 1;
  e = econf_getUInt64ValueDef(kf, grp, "no-such-key", &u64, 18000000000000000001ULL);
  printf(" u64="); pcode(e); printf(":%" PRIu64, u64);
  float f = 1.0f;
  e = econf_getFloatValueDef(kf, grp, "no-such-key", &f, 1.5f);
  printf(" flt="); pcode(e); putchar(':'); pfloat(f);
  double d = 1.0;
  e = econf_getDoubleValueDef(kf, grp, "no-such-key", &d, -2.25);
  printf(" dbl="); pcode(e); putchar(':'); pdouble(d);
  bool b = false;
  e = econf_getBoolValueDef(kf, grp, "no-such-key", &b, true);
  printf(" bool="); pcode(e); printf(":%d", (int)b);
  econf_ext_value *ev = NULL;
  e = econf_getExtValue(kf, grp, "no-such-key", &ev);
  printf(" ext="); pcode(e); printf(":%s\n", ev ? "obj" : "NULL");
  if (e == ECONF_SUCCESS && ev) econf_freeExtValue(ev);
}

static void plist(const char *what, const char *arg, econf_err e, size_t n, char **l)
{
  printf("  %s", what);
  if (arg != (const char *)-1) { putchar('('); pstr(arg); putchar(')'); }
  putchar(' ');
  prc(e);
  printf(" n=%zu", n);
  if (e == ECONF_SUCCESS) {
    printf(" [");
    if (l == NULL)
      printf("NULL");
    else
      for (size_t i = 0; l[i] != NULL; i++) {
	if (i) putchar(' ');
	pstr(l[i]);
      }
    printf("]");
  }
  putchar('\n');
}

static void dump_keys_of(econf_file *kf, const char *grp, int full)
{
  char **keys = NULL;
  size_t n = 4242;
  econf_err e = econf_getKeys(kf, grp, &n, &keys);
  plist("keys", grp, e, n, e == ECONF_SUCCESS ? keys : NULL);
  if (e != ECONF_SUCCESS)
    return;
  for (size_t i = 0; keys && keys[i]; i++) {
    bool seen = false;
    for (size_t j = 0; j < i; j++)
      if (!strcmp(keys[i], keys[j])) { seen = true; break; }
    if (!seen)
      dump_key(kf, grp, keys[i], full);
  }
  econf_free(keys);
}

/* full = 1: additionally the Def getters, bracketed group names, missing keys */
static void dump_file(const char *label, econf_file *kf, int full)
{
  printf("  object %s:", label);
  if (kf == NULL) {
    printf(" NULL\n");
    return;
  }
  char *p = econf_getPath(kf);
  printf(" path="); ppath(p);
  free(p);
  printf(" delim="); pchr(econf_delimiter_tag(kf));
  printf(" comment="); pchr(econf_comment_tag(kf));
  putchar('\n');

  char **groups = NULL;
  size_t ng = 4242;
  econf_err e = econf_getGroups(kf, &ng, &groups);
  plist("groups", (const char *)-1, e, e == ECONF_SUCCESS ? ng : 0, e == ECONF_SUCCESS ? groups : NULL);
  dump_keys_of(kf, NULL, full);
  if (e == ECONF_SUCCESS && groups) {
    for (size_t g = 0; groups[g]; g++) {
      bool seen = false;
      for (size_t j = 0; j < g; j++)
	if (!strcmp(groups[g], groups[j])) { seen = true; break; }
      if (!seen)
	dump_keys_of(kf, groups[g], full);
    }
  }
  if (full) {
    dump_missing(kf, NULL);
    dump_missing(kf, "no-such-group");
    if (e == ECONF_SUCCESS && groups && groups[0])
      dump_missing(kf, groups[0]);
    /* group listing through other spellings */
    char **keys = NULL;
    size_t n = 4242;
    econf_err e2 = econf_getKeys(kf, "", &n, &keys);
    plist("keys", "", e2, n, e2 == ECONF_SUCCESS ? keys : NULL);
    if (e2 == ECONF_SUCCESS) econf_free(keys);
    if (e == ECONF_SUCCESS && groups && groups[0]) {
      keys = NULL; n = 4242;
      const char *bg = mk("[%s]", groups[0]);
      e2 = econf_getKeys(kf, bg, &n, &keys);
      plist("keys", bg, e2, n, e2 == ECONF_SUCCESS ? keys : NULL);
      if (e2 == ECONF_SUCCESS) econf_free(keys);
    }
    keys = NULL; n = 4242;
    e2 = econf_getKeys(kf, "no-such-group", &n, &keys);
    plist("keys", "no-such-group", e2, n, e2 == ECONF_SUCCESS ? keys : NULL);
    if (e2 == ECONF_SUCCESS) econf_free(keys);
    /* keys listing without a length pointer */
    keys = NULL;
    e2 = econf_getKeys(kf, NULL, NULL, &keys);
    size_t cnt = 0;
    if (e2 == ECONF_SUCCESS && keys) while (keys[cnt]) cnt++;
    plist("keys-nolen", NULL, e2, cnt, e2 == ECONF_SUCCESS ? keys : NULL);
    if (e2 == ECONF_SUCCESS) econf_free(keys);
  }
  if (e == ECONF_SUCCESS)
    econf_free(groups);
}

/* print the content of a file, one output line per input line */
static void dump_bytes(const char *path)
{
  FILE *f = fopen(path, "rb");
  if (!f) {
    printf("    (cannot open %s: %s)\n", rel(path), strerror(errno));
    return;
  }
  char *buf = NULL;
  size_t cap = 0, len = 0;
  for (;;) {
    if (len + 65536 > cap) {
      cap = cap ? cap * 2 : 131072;
      buf = realloc(buf, cap);
      if (!buf) abort();
    }
    size_t r = fread(buf + len, 1, cap - len, f);
    if (r == 0) break;
    len += r;
  }
  fclose(f);
  printf("    bytes=%zu fnv=%08x\n", len, fnv(buf, len));
  size_t start = 0;
  while (start < len) {
    size_t end = start;
    while (end < len && buf[end] != '\n') end++;
    size_t stop = end < len ? end + 1 : end;
    printf("    w|");
    pbytes(buf + start, stop - start);
    putchar('\n');
    start = stop;
  }
  free(buf);
}

static int wseq;
/* write the object, show the bytes, read them back with the object's characters */
static void write_reread(econf_file *kf, int full)
{
  char name[64];
  snprintf(name, sizeof name, "w%05d.out", wseq++);
  econf_err e = econf_writeFile(kf, W, name);
  printf("  write "); prc(e); putchar('\n');
  const char *path = mk("%s/%s", W, name);
  if (e == ECONF_SUCCESS) {
    dump_bytes(path);
    char delim[2] = { econf_delimiter_tag(kf), 0 };
    char comment[2] = { econf_comment_tag(kf), 0 };
    econf_file *back = NULL;
    e = econf_readFile(&back, path, delim, comment);
    printf("  reread delim="); pstr(delim); printf(" comment="); pstr(comment);
    putchar(' '); prc(e); putchar('\n');
    if (e != ECONF_SUCCESS) {
      perrloc();
      printf("  out=%s\n", back ? "obj" : "NULL");
    }
    if (back) {
      dump_file("reread", back, full);
      econf_free(back);
    }
  }
  unlink(path);
}

/* ------------------------------------------------------------------ */
/* callbacks                                                          */
/* ------------------------------------------------------------------ */

struct cbdata {
  int calls;		/* number of calls so far */
  int reject_nth;	/* reject the n-th call (1-based), 0 = never */
  const char *reject_name; /* reject files with this base name */
  int quiet;
};

static bool cb_check(const char *filename, const void *data)
{
  struct cbdata *cd = (struct cbdata *)(uintptr_t)data;
  bool ok = true;
  if (cd == NULL) {
    printf("    cb(NULL data) "); ppath(filename); putchar('\n');
    return true;
  }
  cd->calls++;
  if (cd->reject_nth && cd->calls == cd->reject_nth)
    ok = false;
  if (cd->reject_name && filename) {
    const char *b = strrchr(filename, '/');
    b = b ? b + 1 : filename;
    if (!strcmp(b, cd->reject_name))
      ok = false;
  }
  if (!cd->quiet) {
    printf("    cb#%d ", cd->calls); ppath(filename); printf(" -> %s\n", ok ? "accept" : "REJECT");
  }
  return ok;
}

static void after_read(const char *label, econf_err e, econf_file **kf, int full, int do_write)
{
  if (e != ECONF_SUCCESS) {
    perrloc();
    printf("  out=%s\n", *kf ? "obj" : "NULL");
  }
  if (*kf) {
    if (e == ECONF_SUCCESS) {
      dump_file(label, *kf, full);
      if (do_write)
	write_reread(*kf, 0);
    }
    *kf = econf_freeFile(*kf);
    if (*kf != NULL)
      printf("  freeFile did not return NULL\n");
  }
}

/* ------------------------------------------------------------------ */
/* group: single <file>                                               */
/* ------------------------------------------------------------------ */

static const char *const DELIMS[] = { "=", " =", " ", "\t", ":=", "", " \t" };
static const char *const COMMENTS[] = { "#", "#;", ";", "" };
static const char *const OPTS[] = { "", "JOIN_SAME_ENTRIES=1", "PYTHON_STYLE=1",
				    "JOIN_SAME_ENTRIES=1;PYTHON_STYLE=1" };
#define NELEM(a) (sizeof(a) / sizeof((a)[0]))

static void g_single(const char *fname)
{
  char *path = strdup(mk("%s/single/%s", D, fname));
  char *base = strdup(fname);
  char *dot = strrchr(base, '.');
  const char *suffix = "";
  if (dot) { *dot = 0; suffix = dot + 1; }

  for (size_t di = 0; di < NELEM(DELIMS); di++)
    for (size_t ci = 0; ci < NELEM(COMMENTS); ci++) {
      int first = (di == 0 && ci == 0);
      econf_file *kf = NULL;
      printf("READ readFile "); pstr(fname); printf(" delim="); pstr(DELIMS[di]);
      printf(" comment="); pstr(COMMENTS[ci]);
      econf_err e = econf_readFile(&kf, path, DELIMS[di], COMMENTS[ci]);
      putchar(' '); prc(e); putchar('\n');
      after_read("file", e, &kf, first, 1);

      for (size_t oi = 0; oi < NELEM(OPTS); oi++) {
	const char *opt = mk("PARSING_DIRS=%s/single%s%s", D, *OPTS[oi] ? ";" : "", OPTS[oi]);
	econf_file *h = NULL;
	e = econf_newKeyFile_with_options(&h, opt);
	printf("READ readConfig "); pstr(fname); printf(" delim="); pstr(DELIMS[di]);
	printf(" comment="); pstr(COMMENTS[ci]); printf(" opts="); pstr(OPTS[oi]);
	printf(" new:"); pcode(e);
	if (e != ECONF_SUCCESS) {
	  putchar('\n');
	  if (h) econf_free(h);
	  continue;
	}
	e = econf_readConfig(&h, NULL, NULL, base, suffix, DELIMS[di], COMMENTS[ci]);
	putchar(' '); prc(e); putchar('\n');
	after_read("cfg", e, &h, 0, oi != 0 && ci == 0);
      }
    }

  /* NULL delimiter / comment set */
  {
    econf_file *kf = NULL;
    econf_err e = econf_readFile(&kf, path, "=", NULL);
    printf("READ readFile comment=NULL "); prc(e); putchar('\n');
    after_read("file", e, &kf, 0, 0);
    kf = NULL;
    e = econf_readFile(&kf, path, NULL, "#");
    printf("READ readFile delim=NULL "); prc(e); putchar('\n');
    after_read("file", e, &kf, 0, 0);
  }
  /* callback variants */
  {
    struct cbdata cd = { 0, 0, NULL, 0 };
    econf_file *kf = NULL;
    econf_err e = econf_readFileWithCallback(&kf, path, "=", "#", cb_check, &cd);
    printf("READ readFileWithCallback accept "); prc(e); printf(" calls=%d\n", cd.calls);
    after_read("file", e, &kf, 0, 0);
    struct cbdata cr = { 0, 1, NULL, 0 };
    kf = NULL;
    e = econf_readFileWithCallback(&kf, path, "=", "#", cb_check, &cr);
    printf("READ readFileWithCallback reject "); prc(e); printf(" calls=%d\n", cr.calls);
    after_read("file", e, &kf, 0, 0);
    kf = NULL;
    e = econf_readFileWithCallback(&kf, path, "=", "#", NULL, &cr);
    printf("READ readFileWithCallback nocallback "); prc(e); putchar('\n');
    after_read("file", e, &kf, 0, 0);
  }
  /* relative name */
  if (chdir(D) == 0) {
    econf_file *kf = NULL;
    const char *r = mk("single/%s", fname);
    econf_err e = econf_readFile(&kf, r, "=", "#");
    printf("READ readFile relative "); pstr(r); putchar(' '); prc(e); putchar('\n');
    after_read("file", e, &kf, 0, 0);
    kf = NULL;
    r = mk("./single/../single/%s", fname);
    e = econf_readFile(&kf, r, "=", "#");
    printf("READ readFile relative "); pstr(r); putchar(' '); prc(e); putchar('\n');
    after_read("file", e, &kf, 0, 0);
  }
  free(base);
  free(path);
}

/* ------------------------------------------------------------------ */
/* group: tree <dir>                                                  */
/* ------------------------------------------------------------------ */

struct treecfg {
  const char *dir, *project, *name, *suffix, *delim, *comment;
};
static const struct treecfg TREES[] = {
  { "t25_project", "prj", "ex", "conf", "=", "#" },
  { "t26_project_d", "prj", NULL, "conf", "=", "#" },
  { "t27_no_suffix", NULL, "ex", NULL, "=", "#" },
  { "t30_other_chars", NULL, "ex", "conf", ":", ";" },
};
static struct treecfg tree_cfg(const char *dir)
{
  struct treecfg c = { dir, NULL, "ex", "conf", "=", "#" };
  for (size_t i = 0; i < NELEM(TREES); i++)
    if (!strcmp(TREES[i].dir, dir))
      c = TREES[i];
  c.dir = dir;
  return c;
}

static void dump_history(econf_err e, econf_file ***files, size_t size, int full)
{
  if (e != ECONF_SUCCESS) {
    perrloc();
    printf("  out=%s size=%zu\n", *files ? "obj" : "NULL", size);
    return;
  }
  printf("  history size=%zu\n", size);
  if (*files == NULL) {
    printf("  history list is NULL\n");
    return;
  }
  for (size_t i = 0; i < size; i++) {
    const char *label = mk("member%zu", i);
    dump_file(label, (*files)[i], full);
    econf_free((*files)[i]);
  }
  free(*files);
  *files = NULL;
}

/* rel() only replaces a prefix; option strings carry the path in the middle */
static const char *relopt(const char *opt)
{
  static char buf[4][3 * PATH_MAX];
  static int idx;
  idx = (idx + 1) % 4;
  char *o = buf[idx];
  size_t left = sizeof buf[0] - 1;
  const char *p = opt;
  while (*p && left > 4) {
    if (Dl && !strncmp(p, D, Dl)) { memcpy(o, "$D", 2); o += 2; left -= 2; p += Dl; }
    else { *o++ = *p++; left--; }
  }
  *o = 0;
  return buf[idx];
}

static void read_config(const char *what, const char *opt, const char *project, const char *usr,
			const char *name, const char *suffix, const char *delim, const char *comment,
			struct cbdata *cd, int full, int do_write)
{
  econf_file *h = NULL;
  econf_err e;
  printf("READ %s opts=", what); pstr(relopt(opt ? opt : "(none)"));
  printf(" project="); pstr(project); printf(" usr="); pstr(rel(usr)); printf(" name="); pstr(name);
  printf(" suffix="); pstr(suffix); putchar('\n');
  if (opt) {
    e = econf_newKeyFile_with_options(&h, opt);
    if (e != ECONF_SUCCESS) {
      printf("  handle "); prc(e); printf(" out=%s\n", h ? "obj" : "NULL");
      if (h) econf_free(h);
      return;
    }
  }
  if (cd)
    e = econf_readConfigWithCallback(&h, project, usr, name, suffix, delim, comment, cb_check, cd);
  else
    e = econf_readConfig(&h, project, usr, name, suffix, delim, comment);
  printf("  result "); prc(e);
  if (cd) printf(" calls=%d", cd->calls);
  putchar('\n');
  after_read("cfg", e, &h, full, do_write);
}

static void read_dirs(const char *usr, const char *etc, const char *name, const char *suffix,
		      const char *delim, const char *comment, struct cbdata *cd, int full, int do_write)
{
  econf_file *kf = NULL;
  econf_err e;
  printf("READ %s usr=", cd ? "readDirsWithCallback" : "readDirs"); pstr(rel(usr));
  printf(" etc="); pstr(rel(etc)); printf(" name="); pstr(name); printf(" suffix="); pstr(suffix);
  putchar('\n');
  if (cd)
    e = econf_readDirsWithCallback(&kf, usr, etc, name, suffix, delim, comment, cb_check, cd);
  else
    e = econf_readDirs(&kf, usr, etc, name, suffix, delim, comment);
  printf("  result "); prc(e);
  if (cd) printf(" calls=%d", cd->calls);
  putchar('\n');
  after_read("dirs", e, &kf, full, do_write);
}

static void read_history(const char *usr, const char *etc, const char *name, const char *suffix,
			 const char *delim, const char *comment, struct cbdata *cd, int full)
{
  econf_file **files = NULL;
  size_t size = 4242;
  econf_err e;
  printf("READ %s usr=", cd ? "readDirsHistoryWithCallback" : "readDirsHistory"); pstr(rel(usr));
  printf(" etc="); pstr(rel(etc)); printf(" name="); pstr(name); printf(" suffix="); pstr(suffix);
  putchar('\n');
  if (cd)
    e = econf_readDirsHistoryWithCallback(&files, &size, usr, etc, name, suffix, delim, comment, cb_check, cd);
  else
    e = econf_readDirsHistory(&files, &size, usr, etc, name, suffix, delim, comment);
  printf("  result "); prc(e);
  if (cd) printf(" calls=%d", cd->calls);
  putchar('\n');
  dump_history(e, &files, size, full);
}

static void g_tree(const char *dir)
{
  struct treecfg c = tree_cfg(dir);
  char *T = strdup(mk("%s/trees/%s", D, dir));
  /* two-directory entry points: vendor and /etc layer (inside the project) */
  char *usr = strdup(c.project && c.name ? mk("%s/usr/etc/%s", T, c.project) : mk("%s/usr/etc", T));
  char *run = strdup(c.project && c.name ? mk("%s/run/%s", T, c.project) : mk("%s/run", T));
  char *etc = strdup(c.project && c.name ? mk("%s/etc/%s", T, c.project) : mk("%s/etc", T));
  char *root = strdup(T);
  /* readDirs needs a name; for the "project.d" layout use the project */
  const char *dname = c.name ? c.name : c.project;
  char *o_root = strdup(mk("ROOT_PREFIX=%s", root));
  char *o_pd3 = strdup(mk("PARSING_DIRS=%s:%s:%s", usr, run, etc));
  char *o_pd2 = strdup(mk("PARSING_DIRS=%s:%s", usr, etc));
  int n2 = 0, n3 = 0;

  printf("TREE %s project=", dir); pstr(c.project); printf(" name="); pstr(c.name);
  printf(" suffix="); pstr(c.suffix); printf(" delim="); pstr(c.delim); printf(" comment="); pstr(c.comment);
  putchar('\n');

  /* 1. two directories */
  read_dirs(usr, etc, dname, c.suffix, c.delim, c.comment, NULL, 1, 1);
  { struct cbdata cd = { 0, 0, NULL, 0 };
    read_dirs(usr, etc, dname, c.suffix, c.delim, c.comment, &cd, 0, 0); n2 = cd.calls; }
  read_history(usr, etc, dname, c.suffix, c.delim, c.comment, NULL, 0);
  { struct cbdata cd = { 0, 0, NULL, 0 };
    read_history(usr, etc, dname, c.suffix, c.delim, c.comment, &cd, 0); }
  read_config("readConfig", o_pd2, c.project, "/usr/etc", c.name, c.suffix, c.delim, c.comment, NULL, 0, 0);

  /* 2. three layers */
  read_config("readConfig", o_root, c.project, "/usr/etc", c.name, c.suffix, c.delim, c.comment, NULL, 1, 1);
  { struct cbdata cd = { 0, 0, NULL, 0 };
    read_config("readConfigWithCallback", o_root, c.project, "/usr/etc", c.name, c.suffix, c.delim, c.comment, &cd, 0, 0);
    n3 = cd.calls; }
  read_config("readConfig", o_pd3, c.project, "/usr/etc", c.name, c.suffix, c.delim, c.comment, NULL, 0, 0);
  { struct cbdata cd = { 0, 0, NULL, 0 };
    read_config("readConfigWithCallback", o_pd3, c.project, NULL, c.name, c.suffix, c.delim, c.comment, &cd, 0, 0); }
  /* root prefix with trailing slash, usr_subdir without leading slash */
  read_config("readConfig", mk("%s/", o_root), c.project, "usr/etc", c.name, c.suffix, c.delim, c.comment, NULL, 0, 0);
  /* options together with a root prefix */
  read_config("readConfig", mk("JOIN_SAME_ENTRIES=1;%s", o_root), c.project, "/usr/etc", c.name, c.suffix, c.delim, c.comment, NULL, 0, 0);
  read_config("readConfig", mk("%s;PYTHON_STYLE=1", o_root), c.project, "/usr/etc", c.name, c.suffix, c.delim, c.comment, NULL, 0, 0);

  /* 3. suffix with / without dot */
  if (c.suffix && *c.suffix) {
    const char *alt = c.suffix[0] == '.' ? c.suffix + 1 : mk(".%s", c.suffix);
    read_dirs(usr, etc, dname, alt, c.delim, c.comment, NULL, 0, 0);
    read_history(usr, etc, dname, alt, c.delim, c.comment, NULL, 0);
    read_config("readConfig", o_root, c.project, "/usr/etc", c.name, alt, c.delim, c.comment, NULL, 0, 0);
  }
  /* wrong / empty suffix */
  read_dirs(usr, etc, dname, "nosuchsuffix", c.delim, c.comment, NULL, 0, 0);
  read_dirs(usr, etc, dname, "", c.delim, c.comment, NULL, 0, 0);
  read_dirs(usr, etc, dname, NULL, c.delim, c.comment, NULL, 0, 0);

  /* 4. callbacks which reject the n-th file */
  for (int n = 1; n <= n2 + 1; n++) {
    struct cbdata cd = { 0, n, NULL, 0 };
    printf("REJECT two-dir n=%d\n", n);
    read_dirs(usr, etc, dname, c.suffix, c.delim, c.comment, &cd, 0, 0);
    struct cbdata ch = { 0, n, NULL, 0 };
    read_history(usr, etc, dname, c.suffix, c.delim, c.comment, &ch, 0);
  }
  for (int n = 1; n <= n3 + 1; n++) {
    struct cbdata cd = { 0, n, NULL, 0 };
    printf("REJECT three-layer n=%d\n", n);
    read_config("readConfigWithCallback", o_root, c.project, "/usr/etc", c.name, c.suffix, c.delim, c.comment, &cd, 0, 0);
  }
  /* ... or a named file */
  {
    static const char *const names[] = { "ex.conf", "10-a.conf", "50-x.conf", "30-c.conf", "ex", "a.conf" };
    for (size_t i = 0; i < NELEM(names); i++) {
      struct cbdata cd = { 0, 0, names[i], 0 };
      printf("REJECT name=%s\n", names[i]);
      read_config("readConfigWithCallback", o_root, c.project, "/usr/etc", c.name, c.suffix, c.delim, c.comment, &cd, 0, 0);
      struct cbdata ch = { 0, 0, names[i], 0 };
      read_history(usr, etc, dname, c.suffix, c.delim, c.comment, &ch, 0);
    }
  }

  /* 5. the main file of every layer on its own */
  {
    const char *layers[3] = { usr, run, etc };
    for (int l = 0; l < 3; l++) {
      const char *sfx = c.suffix ? c.suffix : "";
      const char *p = mk("%s/%s%s%s", layers[l], dname, (*sfx && *sfx != '.') ? "." : "", sfx);
      econf_file *kf = NULL;
      econf_err e = econf_readFile(&kf, p, c.delim, c.comment);
      printf("READ readFile "); ppath(p); putchar(' '); prc(e); putchar('\n');
      after_read("file", e, &kf, 0, 0);
      struct cbdata cd = { 0, 0, NULL, 0 };
      kf = NULL;
      e = econf_readFileWithCallback(&kf, p, c.delim, c.comment, cb_check, &cd);
      printf("READ readFileWithCallback "); ppath(p); putchar(' '); prc(e); printf(" calls=%d\n", cd.calls);
      after_read("file", e, &kf, 0, 0);
    }
  }

  /* 6. other argument orders: layers swapped, same directory twice, missing directories */
  read_dirs(etc, usr, dname, c.suffix, c.delim, c.comment, NULL, 0, 0);
  read_dirs(usr, usr, dname, c.suffix, c.delim, c.comment, NULL, 0, 0);
  read_history(etc, etc, dname, c.suffix, c.delim, c.comment, NULL, 0);
  read_dirs(usr, mk("%s/no-such-dir", T), dname, c.suffix, c.delim, c.comment, NULL, 0, 0);
  read_dirs(mk("%s/no-such-dir", T), etc, dname, c.suffix, c.delim, c.comment, NULL, 0, 0);
  read_dirs(mk("%s/", usr), mk("%s//", etc), dname, c.suffix, c.delim, c.comment, NULL, 0, 0);
  read_dirs(usr, etc, "no-such-name", c.suffix, c.delim, c.comment, NULL, 0, 0);
  read_history(usr, etc, "no-such-name", c.suffix, c.delim, c.comment, NULL, 0);

  free(T); free(usr); free(run); free(etc); free(root); free(o_root); free(o_pd3); free(o_pd2);
}

/* ------------------------------------------------------------------ */
/* group: confdirs (econf_set_conf_dirs, CONFIG_DIRS=)                */
/* ------------------------------------------------------------------ */

static void g_confdirs(void)
{
  static const char *const l0[] = { ".conf.d", ".d", "/", NULL };
  static const char *const l1[] = { ".d", NULL };
  static const char *const l2[] = { "", NULL };
  static const char *const l3[] = { ".d", ".d", NULL };
  static const char *const l4[] = { "/", ".conf.d", NULL };
  static const char *const l5[] = { NULL };
  static const char *const l6[] = { "conf.d", NULL };
  static const char *const l7[] = { ".conf.d", "", ".d", "/", ".conf.d", NULL };
  static const char *const *const lists[] = { l0, l1, l2, l3, l4, l5, l6, l7, l5 };
  static const char *const trees[] = { "t23_name_d", "t08_dropins_each_layer", "t27_no_suffix", "t26_project_d" };

  for (size_t li = 0; li < NELEM(lists); li++) {
    printf("CONFDIRS [");
    for (size_t i = 0; lists[li][i]; i++) { if (i) putchar(','); pstr(lists[li][i]); }
    printf("] ");
    econf_err e = econf_set_conf_dirs((const char **)(uintptr_t)lists[li]);
    prc(e); putchar('\n');
    for (size_t ti = 0; ti < NELEM(trees); ti++) {
      struct treecfg c = tree_cfg(trees[ti]);
      char *T = strdup(mk("%s/trees/%s", D, trees[ti]));
      char *usr = strdup(mk("%s/usr/etc", T));
      char *etc = strdup(mk("%s/etc", T));
      const char *dname = c.name ? c.name : c.project;
      read_dirs(usr, etc, dname, c.suffix, c.delim, c.comment, NULL, 0, 0);
      read_history(usr, etc, dname, c.suffix, c.delim, c.comment, NULL, 0);
      struct cbdata cd = { 0, 0, NULL, 0 };
      read_config("readConfigWithCallback", mk("ROOT_PREFIX=%s", T), c.name ? NULL : c.project, "/usr/etc",
		  c.name, c.suffix, c.delim, c.comment, &cd, 0, 0);
      /* the handle's own list has priority over the global one */
      read_config("readConfig", mk("ROOT_PREFIX=%s;CONFIG_DIRS=.d", T), c.name ? NULL : c.project, "/usr/etc",
		  c.name, c.suffix, c.delim, c.comment, NULL, 0, 0);
      free(T); free(usr); free(etc);
    }
  }
  /* CONFIG_DIRS= on the handle only */
  static const char *const cds[] = { "CONFIG_DIRS=.conf.d:.d:/", "CONFIG_DIRS=", "CONFIG_DIRS=.d;CONFIG_DIRS=.conf.d",
    "CONFIG_DIRS=.d:.d", "CONFIG_DIRS=:.d:", "CONFIG_DIRS=/", "CONFIG_DIRS=.conf.d:.d:/;CONFIG_DIRS=" };
  for (size_t i = 0; i < NELEM(cds); i++)
    for (size_t ti = 0; ti < 2; ti++) {
      char *T = strdup(mk("%s/trees/%s", D, trees[ti]));
      read_config("readConfig", mk("%s;ROOT_PREFIX=%s", cds[i], T), NULL, "/usr/etc", "ex", "conf", "=", "#", NULL, 0, 0);
      read_config("readConfig", mk("ROOT_PREFIX=%s;%s", T, cds[i]), NULL, "/usr/etc", "ex", ".conf", "=", "#", NULL, 0, 0);
      free(T);
    }
}

/* ------------------------------------------------------------------ */
/* group: options (option strings of econf_newKeyFile_with_options)   */
/* ------------------------------------------------------------------ */

static void g_options(void)
{
  char *T8 = strdup(mk("%s/trees/t08_dropins_each_layer", D));
  char *T4 = strdup(mk("%s/trees/t04_all_three", D));
  char *T25 = strdup(mk("%s/trees/t25_project", D));
  char *T26 = strdup(mk("%s/trees/t26_project_d", D));
  char *T28 = strdup(mk("%s/trees/t28_join_python", D));

  const char *opts[] = {
    mk("PARSING_DIRS=%s/usr/etc:%s/run:%s/etc", T8, T8, T8),
    mk("PARSING_DIRS=%s/usr/etc/:%s/run/:%s/etc/", T8, T8, T8),
    mk("PARSING_DIRS=%s/etc:%s/usr/etc", T8, T8),
    mk("PARSING_DIRS=%s/etc", T8),
    "PARSING_DIRS=",
    mk("PARSING_DIRS=:%s/etc::", T8),
    mk("PARSING_DIRS=%s/etc:%s/etc", T8, T8),
    mk("PARSING_DIRS=%s/etc;PARSING_DIRS=%s/usr/etc", T8, T8),
    mk("PARSING_DIRS=%s/usr/etc:%s/usr/etc:%s/etc", T4, T8, T8),
    mk("PARSING_DIRS=%s/no-such:%s/usr/etc", T8, T8),
    mk("ROOT_PREFIX=%s", T8),
    mk("ROOT_PREFIX=%s/", T8),
    "ROOT_PREFIX=",
    mk("ROOT_PREFIX=%s;ROOT_PREFIX=%s", T4, T8),
    mk("ROOT_PREFIX=%s;ROOT_PREFIX=%s", T8, T4),
    mk("ROOT_PREFIX=%s/no-such-root", D),
    mk("ROOT_PREFIX=%s;PARSING_DIRS=%s/etc", T4, T8),
    mk("JOIN_SAME_ENTRIES=1;PYTHON_STYLE=1;ROOT_PREFIX=%s", T28),
    mk("ROOT_PREFIX=%s;JOIN_SAME_ENTRIES=1", T28),
    mk("ROOT_PREFIX=%s;PYTHON_STYLE=1", T28),
    mk("ROOT_PREFIX=%s", T28),
    mk("JOIN_SAME_ENTRIES=1;JOIN_SAME_ENTRIES=1;ROOT_PREFIX=%s", T28),
    "FOO=1", "JOIN_SAME_ENTRIES=0", "JOIN_SAME_ENTRIES=1;", ";", ";;",
    mk("PYTHON_STYLE=1;BOGUS;ROOT_PREFIX=%s", T8),
    mk("ROOT_PREFIX=%s;BOGUS", T8),
    mk("PARSING_DIRS=%s/etc;CONFIG_DIRS=.d;ROOT_PREFIX=/x;UNKNOWN=1", T8),
    "join_same_entries=1", "JOIN_SAME_ENTRIES=1 ", " PYTHON_STYLE=1", "PYTHON_STYLE=2", "PYTHON_STYLE",
    "PARSING_DIRS", "ROOT_PREFIX", "CONFIG_DIRS",
  };
  char *o[NELEM(opts)];
  for (size_t i = 0; i < NELEM(opts); i++) o[i] = strdup(opts[i]);

  for (size_t i = 0; i < NELEM(opts); i++) {
    printf("OPTION "); pstr(relopt(o[i])); putchar('\n');
    read_config("readConfig", o[i], NULL, "/usr/etc", "ex", "conf", "=", "#", NULL, 0, 0);
    struct cbdata cd = { 0, 0, NULL, 0 };
    read_config("readConfigWithCallback", o[i], NULL, "/usr/etc", "ex", "conf", "=", "#", &cd, 0, 0);
  }
  for (size_t i = 0; i < NELEM(opts); i++) free(o[i]);

  /* NULL option string */
  {
    econf_file *h = (econf_file *)0;
    econf_err e = econf_newKeyFile_with_options(&h, NULL);
    printf("OPTION NULL "); prc(e); putchar('\n');
    if (h) { dump_file("handle", h, 1); write_reread(h, 0); econf_free(h); }
    h = NULL;
    e = econf_newKeyFile_with_options(&h, "");
    printf("OPTION \"\" "); prc(e); putchar('\n');
    if (h) { dump_file("handle", h, 0); econf_free(h); }
  }

  /* project / name combinations */
  struct { const char *root, *project, *name, *suffix; } pn[] = {
    { T25, "prj", "ex", "conf" }, { T25, NULL, "ex", "conf" }, { T25, "", "ex", "conf" },
    { T25, "prj", NULL, "conf" }, { T25, "prj", "", "conf" }, { T25, NULL, NULL, "conf" },
    { T25, "", "", "conf" }, { T25, "", NULL, "conf" }, { T25, NULL, "", "conf" },
    { T25, "nosuch", "ex", "conf" }, { T25, "prj", "nosuch", "conf" }, { T25, "prj/", "ex", "conf" },
    { T26, "prj", NULL, "conf" }, { T26, "prj", "", ".conf" }, { T26, "prj", NULL, NULL }, { T26, "prj", NULL, "" },
    { T26, "prj", "ex", "conf" }, { T26, NULL, "prj", "conf" }, { T26, "prj", NULL, "txt" },
  };
  for (size_t i = 0; i < NELEM(pn); i++) {
    printf("PROJECT/NAME\n");
    read_config("readConfig", mk("ROOT_PREFIX=%s", pn[i].root), pn[i].project, "/usr/etc", pn[i].name, pn[i].suffix, "=", "#", NULL, 0, 0);
    struct cbdata cd = { 0, 0, NULL, 0 };
    read_config("readConfigWithCallback", mk("PARSING_DIRS=%s/usr/etc:%s/run:%s/etc", pn[i].root, pn[i].root, pn[i].root),
		pn[i].project, NULL, pn[i].name, pn[i].suffix, "=", "#", &cd, 0, 0);
    /* CONFIG_DIRS given and then "project.d" mode */
    read_config("readConfig", mk("CONFIG_DIRS=.conf.d:.x;ROOT_PREFIX=%s", pn[i].root), pn[i].project, "/usr/etc", pn[i].name, pn[i].suffix, "=", "#", NULL, 0, 0);
  }

  /* no handle: default directories; only the vendor part is under our control */
  {
    const char *usr = mk("%s/misc/second", D);
    read_config("readConfig", NULL, "zz-econfdrv-9k3", usr, "ex", "conf", "=", "#", NULL, 1, 0);
    struct cbdata cd = { 0, 0, NULL, 0 };
    read_config("readConfigWithCallback", NULL, "zz-econfdrv-9k3", mk("%s/misc/second", D), "ex", ".conf", "=", "#", &cd, 0, 0);
    read_config("readConfig", NULL, "zz-econfdrv-9k3", mk("%s/misc/second", D), NULL, "conf", "=", "#", NULL, 0, 0);
    read_config("readConfig", NULL, NULL, mk("%s/misc", D), "zz-econfdrv-9k3", "conf", "=", "#", NULL, 0, 0);
    read_config("readConfig", NULL, "zz-econfdrv-9k3", NULL, "ex", "conf", "=", "#", NULL, 0, 0);
    read_config("readConfig", NULL, NULL, NULL, NULL, "conf", "=", "#", NULL, 0, 0);
    read_config("readConfig", NULL, "zz-econfdrv-9k3", mk("%s/misc/second", D), "ex", "conf", NULL, "#", NULL, 0, 0);
    read_config("readConfig", NULL, "zz-econfdrv-9k3", mk("%s/misc/second", D), "ex", "conf", "=", NULL, NULL, 0, 0);
    econf_err e = econf_readConfig(NULL, "zz-econfdrv-9k3", usr, "ex", "conf", "=", "#");
    printf("READ readConfig key_file=NULL "); prc(e); putchar('\n');
    e = econf_readConfigWithCallback(NULL, "zz-econfdrv-9k3", usr, "ex", "conf", "=", "#", cb_check, NULL);
    printf("READ readConfigWithCallback key_file=NULL "); prc(e); putchar('\n');
  }
  /* handles made by the other constructors */
  {
    econf_file *h = NULL;
    econf_err e = econf_newIniFile(&h);
    printf("HANDLE newIniFile "); prc(e); putchar('\n');
    e = econf_readConfig(&h, "zz-econfdrv-9k3", mk("%s/misc/second", D), "ex", "conf", "=", "#");
    printf("  readConfig "); prc(e); putchar('\n');
    after_read("cfg", e, &h, 0, 0);
    h = NULL;
    e = econf_newKeyFile(&h, ':', ';');
    printf("HANDLE newKeyFile "); prc(e); putchar('\n');
    e = econf_readConfig(&h, "zz-econfdrv-9k3", mk("%s/misc/nothing", D), "ex", "conf", "=", "#");
    printf("  readConfig "); prc(e); printf(" out=%s\n", h ? "obj" : "NULL");
    if (h) { dump_file("kept-handle", h, 0); econf_free(h); }
  }
  free(T8); free(T4); free(T25); free(T26); free(T28);
}

/* ------------------------------------------------------------------ */
/* group: security                                                    */
/* ------------------------------------------------------------------ */

static void sec_reads(const char *tag)
{
  static const char *const files[] = { "plain.conf", "priv.conf", "other.conf", "othergroup.conf", "link.conf",
    "linkpriv.conf", "dir700/inner.conf", "dir755/inner.conf", "nosuch.conf" };
  printf("SECURITY %s\n", tag);
  for (size_t i = 0; i < NELEM(files); i++) {
    const char *p = mk("%s/sec/%s", D, files[i]);
    econf_file *kf = NULL;
    econf_err e = econf_readFile(&kf, p, "=", "#");
    printf(" readFile %s ", files[i]); prc(e);
    if (kf) {
      char *s = NULL;
      econf_err e2 = econf_getStringValue(kf, NULL, "a", &s);
      printf(" a="); pcode(e2); putchar(':'); pstr(s); free(s);
      kf = econf_freeFile(kf);
    }
    putchar('\n');
    struct cbdata cd = { 0, 0, NULL, 1 };
    kf = NULL;
    e = econf_readFileWithCallback(&kf, p, "=", "#", cb_check, &cd);
    printf(" readFileWithCallback %s ", files[i]); prc(e); printf(" calls=%d out=%s\n", cd.calls, kf ? "obj" : "NULL");
    if (kf) econf_free(kf);
  }
  static const char *const trees[] = { "tree", "tree2" };
  for (size_t t = 0; t < NELEM(trees); t++) {
    char *usr = strdup(mk("%s/sec/%s/usr/etc", D, trees[t]));
    char *etc = strdup(mk("%s/sec/%s/etc", D, trees[t]));
    read_dirs(usr, etc, "ex", "conf", "=", "#", NULL, 0, 0);
    struct cbdata cd = { 0, 0, NULL, 0 };
    read_dirs(usr, etc, "ex", "conf", "=", "#", &cd, 0, 0);
    read_history(usr, etc, "ex", "conf", "=", "#", NULL, 0);
    struct cbdata ch = { 0, 0, NULL, 0 };
    read_history(usr, etc, "ex", "conf", "=", "#", &ch, 0);
    read_config("readConfig", mk("ROOT_PREFIX=%s/sec/%s", D, trees[t]), NULL, "/usr/etc", "ex", "conf", "=", "#", NULL, 0, 0);
    struct cbdata cc = { 0, 0, NULL, 0 };
    read_config("readConfigWithCallback", mk("ROOT_PREFIX=%s/sec/%s", D, trees[t]), NULL, "/usr/etc", "ex", "conf", "=", "#", &cc, 0, 0);
    free(usr); free(etc);
  }
}

static void g_security(void)
{
  struct stat st, so, sg;
  if (stat(mk("%s/sec/plain.conf", D), &st) != 0 || stat(mk("%s/sec/other.conf", D), &so) != 0 ||
      stat(mk("%s/sec/othergroup.conf", D), &sg) != 0) {
    printf("SECURITY stat failed\n");
    return;
  }
  uid_t me = st.st_uid;
  gid_t mygrp = st.st_gid;
  printf("SECURITY other.conf: owner %s group %s; othergroup.conf: owner %s group %s\n",
	 so.st_uid == me ? "same" : "different", so.st_gid == mygrp ? "same" : "different",
	 sg.st_uid == me ? "same" : "different", sg.st_gid == mygrp ? "same" : "different");

  sec_reads("defaults");
  econf_requireOwner(me);
  sec_reads("owner=mine");
  econf_requireOwner(me + 1);
  sec_reads("owner=mine+1");
  econf_requireOwner(so.st_uid);
  sec_reads("owner=owner-of-other.conf");
  econf_reset_security_settings();
  sec_reads("after reset");
  econf_requireGroup(mygrp);
  sec_reads("group=mine");
  econf_requireGroup(mygrp + 1);
  sec_reads("group=mine+1");
  econf_requireGroup(sg.st_gid);
  sec_reads("group=group-of-othergroup.conf");
  econf_requireOwner(me);
  sec_reads("group=group-of-othergroup.conf owner=mine");
  econf_reset_security_settings();
  econf_followSymlinks(false);
  sec_reads("nosymlinks");
  econf_requireOwner(me + 1);
  sec_reads("nosymlinks owner=mine+1");
  econf_followSymlinks(true);
  sec_reads("symlinks owner=mine+1");
  econf_reset_security_settings();
  econf_requirePermissions(S_IRGRP, S_IXGRP);
  sec_reads("perms file=g+r dir=g+x");
  econf_requirePermissions(S_IRUSR, S_IXOTH);
  sec_reads("perms file=u+r dir=o+x");
  econf_requirePermissions(0, 0777);
  sec_reads("perms file=0 dir=0777");
  econf_requirePermissions(0777, 0);
  sec_reads("perms file=0777 dir=0");
  econf_requirePermissions(S_IWOTH, 0777);
  sec_reads("perms file=o+w dir=0777");
  econf_requireGroup(mygrp + 1);
  econf_followSymlinks(false);
  sec_reads("perms file=o+w dir=0777 group=mine+1 nosymlinks");
  econf_reset_security_settings();
  sec_reads("after second reset");
  econf_followSymlinks(false);
  econf_followSymlinks(true);
  econf_requireOwner(me + 1);
  econf_requireOwner(me);
  sec_reads("toggled back");
  econf_reset_security_settings();
  econf_reset_security_settings();
  sec_reads("final");
}

/* ------------------------------------------------------------------ */
/* group: setters                                                     */
/* ------------------------------------------------------------------ */

#define SET(call) do { econf_err e_ = (call); printf("  %s -> ", #call); prc(e_); putchar('\n'); } while (0)

static void typed_roundtrip(econf_file *kf, const char *grp)
{
  static const int32_t i32s[] = { 0, 1, -1, 42, INT32_MAX, INT32_MIN, INT32_MAX - 1, INT32_MIN + 1, 65536, -65536 };
  static const int64_t i64s[] = { 0, 1, -1, INT64_MAX, INT64_MIN, INT64_MAX - 1, INT64_MIN + 1, 2147483648LL, -2147483649LL, 4294967296LL };
  static const uint32_t u32s[] = { 0, 1, UINT32_MAX, UINT32_MAX - 1, 2147483648u, 65535 };
  static const uint64_t u64s[] = { 0, 1, UINT64_MAX, UINT64_MAX - 1, 9223372036854775808ULL, 4294967296ULL };
  const float fs[] = { 0.0f, -0.0f, 1.0f, -1.5f, 0.1f, 1.0f / 3.0f, FLT_MAX, -FLT_MAX, FLT_MIN, FLT_TRUE_MIN, FLT_MIN / 2,
    FLT_EPSILON, 16777217.0f, 3.14159274f, 1e-10f, 1e20f, INFINITY, -INFINITY, NAN };
  const double ds[] = { 0.0, -0.0, 1.0, -1.5, 0.1, 1.0 / 3.0, DBL_MAX, -DBL_MAX, DBL_MIN, DBL_TRUE_MIN, DBL_MIN / 2,
    DBL_EPSILON, 9007199254740993.0, 3.141592653589793, 1e-300, 1e300, 0.30000000000000004, INFINITY, -INFINITY, NAN };
  econf_err e, e2;
  char *s;

  printf(" TYPED group="); pstr(grp); putchar('\n');
  for (size_t i = 0; i < NELEM(i32s); i++) {
    int32_t r = 77;
    e = econf_setIntValue(kf, grp, "t_i32", i32s[i]);
    e2 = econf_getIntValue(kf, grp, "t_i32", &r);
    s = NULL; econf_getStringValue(kf, grp, "t_i32", &s);
    printf("  i32 %" PRId32 ": set=", i32s[i]); pcode(e); printf(" get="); pcode(e2);
    printf(":%" PRId32 " text=", r); pstr(s); printf(" %s\n", r == i32s[i] ? "same" : "DIFFERENT"); free(s);
  }
  for (size_t i = 0; i < NELEM(i64s); i++) {
    int64_t r = 77;
    e = econf_setInt64Value(kf, grp, "t_i64", i64s[i]);
    e2 = econf_getInt64Value(kf, grp, "t_i64", &r);
    s = NULL; econf_getStringValue(kf, grp, "t_i64", &s);
    printf("  i64 %" PRId64 ": set=", i64s[i]); pcode(e); printf(" get="); pcode(e2);
    printf(":%" PRId64 " text=", r); pstr(s); printf(" %s\n", r == i64s[i] ? "same" : "DIFFERENT"); free(s);
  }
  for (size_t i = 0; i < NELEM(u32s); i++) {
    uint32_t r = 77;
    e = econf_setUIntValue(kf, grp, "t_u32", u32s[i]);
    e2 = econf_getUIntValue(kf, grp, "t_u32", &r);
    s = NULL; econf_getStringValue(kf, grp, "t_u32", &s);
    printf("  u32 %" PRIu32 ": set=", u32s[i]); pcode(e); printf(" get="); pcode(e2);
    printf(":%" PRIu32 " text=", r); pstr(s); printf(" %s\n", r == u32s[i] ? "same" : "DIFFERENT"); free(s);
  }
  for (size_t i = 0; i < NELEM(u64s); i++) {
    uint64_t r = 77;
    e = econf_setUInt64Value(kf, grp, "t_u64", u64s[i]);
    e2 = econf_getUInt64Value(kf, grp, "t_u64", &r);
    s = NULL; econf_getStringValue(kf, grp, "t_u64", &s);
    printf("  u64 %" PRIu64 ": set=", u64s[i]); pcode(e); printf(" get="); pcode(e2);
    printf(":%" PRIu64 " text=", r); pstr(s); printf(" %s\n", r == u64s[i] ? "same" : "DIFFERENT"); free(s);
  }
  for (size_t i = 0; i < NELEM(fs); i++) {
    float r = 77;
    double rd = 77;
    const char *key = mk("t_flt%zu", i);
    e = econf_setFloatValue(kf, grp, key, fs[i]);
    e2 = econf_getFloatValue(kf, grp, key, &r);
    econf_err e3 = econf_getDoubleValue(kf, grp, key, &rd);
    s = NULL; econf_getStringValue(kf, grp, key, &s);
    printf("  flt "); pfloat(fs[i]); printf(": set="); pcode(e); printf(" get="); pcode(e2); putchar(':'); pfloat(r);
    printf(" asdouble="); pcode(e3); putchar(':'); pdouble(rd);
    printf(" text="); pstr(s);
    printf(" %s\n", (isnan(fs[i]) ? isnan(r) : memcmp(&r, &fs[i], sizeof r) == 0) ? "same" : "DIFFERENT"); free(s);
  }
  for (size_t i = 0; i < NELEM(ds); i++) {
    double r = 77;
    float rf = 77;
    const char *key = mk("t_dbl%zu", i);
    e = econf_setDoubleValue(kf, grp, key, ds[i]);
    e2 = econf_getDoubleValue(kf, grp, key, &r);
    econf_err e3 = econf_getFloatValue(kf, grp, key, &rf);
    s = NULL; econf_getStringValue(kf, grp, key, &s);
    printf("  dbl "); pdouble(ds[i]); printf(": set="); pcode(e); printf(" get="); pcode(e2); putchar(':'); pdouble(r);
    printf(" asfloat="); pcode(e3); putchar(':'); pfloat(rf);
    printf(" text="); pstr(s);
    printf(" %s\n", (isnan(ds[i]) ? isnan(r) : memcmp(&r, &ds[i], sizeof r) == 0) ? "same" : "DIFFERENT"); free(s);
  }
  static const char *const bools[] = { "1", "0", "yes", "no", "true", "false", "YES", "No", "TRUE", "fAlSe", "Yes", "nO",
    "on", "off", "", NULL, "_none_", "_NONE_", "2", " true", "true ", "y", "truefalse" };
  for (size_t i = 0; i < NELEM(bools); i++) {
    bool r = false, r2 = true;
    const char *key = mk("t_bool%zu", i);
    e = econf_setBoolValue(kf, grp, key, bools[i]);
    e2 = econf_getBoolValue(kf, grp, key, &r);
    econf_getBoolValue(kf, grp, key, &r2);
    s = NULL; econf_err e3 = econf_getStringValue(kf, grp, key, &s);
    printf("  bool "); pstr(bools[i]); printf(": set="); pcode(e); printf(" get="); pcode(e2); printf(":%d/%d text=", r, r2);
    pcode(e3); putchar(':'); pstr(s); putchar('\n'); free(s);
  }
  /* a failing bool set on an existing key keeps the value */
  e = econf_setBoolValue(kf, grp, "t_bool0", "maybe");
  s = NULL; econf_getStringValue(kf, grp, "t_bool0", &s);
  printf("  bool overwrite with \"maybe\": set="); pcode(e); printf(" text="); pstr(s); putchar('\n'); free(s);

  char *longs = malloc(10001);
  memset(longs, 'L', 10000); longs[10000] = 0;
  const char *strs[] = { "plain", "with blanks", " lead", "trail ", "\"quoted\"", "\"", "new\nline", "two\n  indented\nlines",
    "", NULL, "has # hash", "a=b", "[x]", "#start", "  ", "tab\there", "caf\xc3\xa9", "\\back\\slash", "_none_", longs };
  for (size_t i = 0; i < NELEM(strs); i++) {
    const char *key = mk("t_str%zu", i);
    e = econf_setStringValue(kf, grp, key, strs[i]);
    s = NULL; e2 = econf_getStringValue(kf, grp, key, &s);
    printf("  str "); pstr(strs[i]); printf(": set="); pcode(e); printf(" get="); pcode(e2); putchar(':'); pstr(s);
    printf(" %s\n", (s && !strcmp(s, strs[i] ? strs[i] : "")) ? "same" : "DIFFERENT"); free(s);
  }
  free(longs);
}

static void setter_sequence(econf_file *kf)
{
  /* new keys in new groups, all spellings of the group */
  SET(econf_setStringValue(kf, NULL, "gl1", "groupless one"));
  SET(econf_setStringValue(kf, "", "gl2", "groupless two"));
  SET(econf_setStringValue(kf, "grp", "k1", "v1"));
  SET(econf_setStringValue(kf, "[grp]", "k2", "v2 via brackets"));
  SET(econf_setStringValue(kf, "[new]", "k1", "new-k1"));
  SET(econf_setStringValue(kf, "new", "k2", "new-k2"));
  SET(econf_setStringValue(kf, "other", "k1", "other-k1"));
  SET(econf_setStringValue(kf, "grp", "k3", "back in grp"));
  SET(econf_setStringValue(kf, "[]", "gl3", "empty brackets"));
  SET(econf_setStringValue(kf, "[a]b]", "odd1", "x"));
  SET(econf_setStringValue(kf, "[", "odd2", "x"));
  SET(econf_setStringValue(kf, "]", "odd3", "x"));
  SET(econf_setStringValue(kf, "a b", "odd4", "x"));
  SET(econf_setStringValue(kf, "_none_", "odd5", "in the reserved group name"));
  SET(econf_setStringValue(kf, "[[dbl]]", "odd6", "x"));
  /* overwriting, also with other types */
  SET(econf_setStringValue(kf, "grp", "k1", "v1 overwritten"));
  SET(econf_setIntValue(kf, "grp", "k2", -12));
  SET(econf_setIntValue(kf, "[grp]", "k2", 12));
  SET(econf_setInt64Value(kf, "new", "k1", INT64_MIN));
  SET(econf_setUIntValue(kf, NULL, "gl1", UINT32_MAX));
  SET(econf_setUInt64Value(kf, "", "gl2", UINT64_MAX));
  SET(econf_setFloatValue(kf, "other", "k1", 2.5f));
  SET(econf_setDoubleValue(kf, "other", "k2", -1e-310));
  SET(econf_setBoolValue(kf, "other", "k3", "YES"));
  SET(econf_setBoolValue(kf, "other", "k3", "nope"));
  SET(econf_setStringValue(kf, "other", "k4", NULL));
  SET(econf_setBoolValue(kf, "other", "k5", NULL));
  /* refused calls */
  SET(econf_setStringValue(kf, "grp", NULL, "x"));
  SET(econf_setStringValue(kf, "grp", "", "x"));
  SET(econf_setIntValue(kf, NULL, NULL, 1));
  SET(econf_setIntValue(kf, NULL, "", 1));
  SET(econf_setInt64Value(kf, "g", "", 1));
  SET(econf_setUIntValue(kf, "g", NULL, 1));
  SET(econf_setUInt64Value(kf, "g", "", 1));
  SET(econf_setFloatValue(kf, "g", NULL, 1));
  SET(econf_setDoubleValue(kf, "g", "", 1));
  SET(econf_setBoolValue(kf, "g", NULL, "true"));
  SET(econf_setBoolValue(kf, "g", "", "true"));
  /* keys with odd names */
  SET(econf_setStringValue(kf, "grp", "key with blanks", "x"));
  SET(econf_setStringValue(kf, "grp", "k=eq", "x"));
  SET(econf_setStringValue(kf, "grp", "[br]", "x"));
  SET(econf_setStringValue(kf, "grp", "_none_", "x"));
  /* generic macros */
  SET(econf_setValue(kf, "gen", "int", (int)-5));
  SET(econf_setValue(kf, "gen", "long", (long)-5000000000L));
  SET(econf_setValue(kf, "gen", "uint", (unsigned int)5));
  SET(econf_setValue(kf, "gen", "ulong", (unsigned long)5000000000UL));
  SET(econf_setValue(kf, "gen", "float", (float)0.25f));
  SET(econf_setValue(kf, "gen", "double", (double)0.125));
  SET(econf_setValue(kf, "gen", "string", (char *)"text"));
}

static void g_setters(void)
{
  econf_err e;
  const char *kinds[] = { "newKeyFile(=,#)", "newIniFile", "newKeyFile(:,;)", "with_options(\"\")", "with_options(NULL)",
    "parsed s008", "parsed s030", "merged", "newKeyFile(space,NUL)" };
  for (size_t k = 0; k < NELEM(kinds); k++) {
    econf_file *kf = NULL, *a = NULL, *b = NULL;
    switch (k) {
    case 0: e = econf_newKeyFile(&kf, '=', '#'); break;
    case 1: e = econf_newIniFile(&kf); break;
    case 2: e = econf_newKeyFile(&kf, ':', ';'); break;
    case 3: e = econf_newKeyFile_with_options(&kf, ""); break;
    case 4: e = econf_newKeyFile_with_options(&kf, NULL); break;
    case 5: e = econf_readFile(&kf, mk("%s/single/s008_groups.conf", D), "=", "#"); break;
    case 6: e = econf_readFile(&kf, mk("%s/single/s030_reopened_sections.conf", D), "=", "#"); break;
    case 7:
      econf_readFile(&a, mk("%s/single/s008_groups.conf", D), "=", "#");
      econf_readFile(&b, mk("%s/single/s030_reopened_sections.conf", D), "=", "#");
      e = econf_mergeFiles(&kf, a, b);
      break;
    default: e = econf_newKeyFile(&kf, ' ', '\0'); break;
    }
    printf("SETTERS on %s ", kinds[k]); prc(e); putchar('\n');
    if (!kf) { econf_free(a); econf_free(b); continue; }
    dump_file("fresh", kf, 1);
    write_reread(kf, 0);
    if (k == 5 || k == 6) {
      /* existing keys and new keys in existing groups of a parsed file */
      SET(econf_setStringValue(kf, "sec", "a", "changed"));
      SET(econf_setStringValue(kf, "s", "a", "changed"));
      SET(econf_setStringValue(kf, "[sec]", "added", "appended to sec"));
      SET(econf_setStringValue(kf, NULL, "g", "changed groupless"));
      SET(econf_setIntValue(kf, "t", "b", 99));
    }
    setter_sequence(kf);
    dump_file("after-sequence", kf, 1);
    write_reread(kf, 0);
    typed_roundtrip(kf, k % 2 ? "typed" : NULL);
    dump_file("after-typed", kf, 0);
    write_reread(kf, 0);
    /* other characters for writing */
    econf_set_delimiter_tag(kf, ':');
    econf_set_comment_tag(kf, ';');
    printf("  tags now delim="); pchr(econf_delimiter_tag(kf)); printf(" comment="); pchr(econf_comment_tag(kf)); putchar('\n');
    write_reread(kf, 0);
    econf_set_delimiter_tag(kf, ' ');
    write_reread(kf, 0);
    econf_set_delimiter_tag(kf, '=');
    econf_set_comment_tag(kf, '#');
    /* the object is unchanged by all these queries */
    dump_file("at-the-end", kf, 0);
    kf = econf_free(kf);
    a = econf_free(a);
    b = econf_free(b);
  }
  /* setters without object */
  printf("SETTERS without object\n");
  SET(econf_setStringValue(NULL, "g", "k", "v"));
  SET(econf_setIntValue(NULL, "g", "k", 1));
  SET(econf_setInt64Value(NULL, "g", "k", 1));
  SET(econf_setUIntValue(NULL, "g", "k", 1));
  SET(econf_setUInt64Value(NULL, "g", "k", 1));
  SET(econf_setFloatValue(NULL, "g", "k", 1));
  SET(econf_setDoubleValue(NULL, "g", "k", 1));
  SET(econf_setBoolValue(NULL, "g", "k", "true"));
  SET(econf_setStringValue(NULL, NULL, NULL, NULL));

  /* many keys: growth of the entry array beyond the initial allocation */
  {
    econf_file *kf = NULL;
    e = econf_newIniFile(&kf);
    printf("SETTERS many keys "); prc(e); putchar('\n');
    for (int i = 0; i < 40; i++) {
      econf_err e1 = econf_setIntValue(kf, mk("g%d", i % 5), mk("k%d", i), i * 1000);
      if (e1) { printf("  set %d -> ", i); prc(e1); putchar('\n'); }
    }
    for (int i = 0; i < 40; i += 3)
      econf_setStringValue(kf, mk("[g%d]", i % 5), mk("k%d", i), "overwritten");
    dump_file("many", kf, 0);
    write_reread(kf, 0);
    econf_free(kf);
  }
}

/* ------------------------------------------------------------------ */
/* group: merge                                                       */
/* ------------------------------------------------------------------ */

#define NOBJ 15
static econf_file *make_obj(int k, const char **name)
{
  static const char *const files[] = { "s008_groups.conf", "s030_reopened_sections.conf", "s006_simple.conf", "s001_empty.conf",
    "s031_quoted.conf", "s034_multiline_comments.conf", "s070_dup_across_groups.conf", "s054_only_sections.conf",
    "s028_repeated_keys.conf", "s009_key_no_value.conf" };
  econf_file *kf = NULL;
  if (k == 14) {
    *name = "s011_key_only_lines.conf";
    econf_readFile(&kf, mk("%s/single/s011_key_only_lines.conf", D), "=", "#");
  } else if (k < 10) {
    *name = files[k];
    econf_readFile(&kf, mk("%s/single/%s", D, files[k]), "=", "#");
  } else if (k == 10) {
    *name = "newKeyFile-empty";
    econf_newKeyFile(&kf, ':', ';');
  } else if (k == 11) {
    *name = "with_options-empty";
    econf_newKeyFile_with_options(&kf, "");
  } else if (k == 12) {
    *name = "setter-built";
    econf_newKeyFile(&kf, ':', ';');
    econf_setStringValue(kf, NULL, "g", "set-groupless");
    econf_setStringValue(kf, NULL, "onlyset", "1");
    econf_setStringValue(kf, "sec", "a", "set-a");
    econf_setStringValue(kf, "fresh", "f", "set-f");
    econf_setStringValue(kf, "sec", "late", "set-late");
    econf_setIntValue(kf, "s", "c", 333);
  } else {
    *name = "setter-groupless-only";
    econf_newIniFile(&kf);
    econf_setStringValue(kf, NULL, "a", "set-a");
    econf_setStringValue(kf, NULL, "zz", "set-zz");
  }
  return kf;
}

static void g_merge(const char *arg)
{
  int from = arg ? atoi(arg) : 0;
  int to = arg ? from + 1 : NOBJ;
  for (int x = from; x < to && x < NOBJ; x++)
    for (int y = 0; y < NOBJ; y++) {
      const char *nx = NULL, *ny = NULL;
      econf_file *a = make_obj(x, &nx), *b = (x == y) ? a : make_obj(y, &ny);
      if (x == y) ny = "(the same object)";
      econf_file *m = NULL;
      econf_err e = econf_mergeFiles(&m, a, b);
      printf("MERGE base=%s override=%s ", nx, ny); prc(e); putchar('\n');
      if (m) {
	dump_file("merged", m, y == 0);
	write_reread(m, 0);
      }
      dump_file("base-after", a, 0);
      if (b != a) dump_file("override-after", b, 0);
      /* the result lives on its own */
      econf_free(a);
      if (b != a) econf_free(b);
      if (m) {
	SET(econf_setStringValue(m, "sec", "a", "set after merge"));
	SET(econf_setStringValue(m, NULL, "post", "set after merge"));
	dump_file("merged-after-free-and-set", m, 0);
	econf_file *m2 = NULL, *c = NULL;
	const char *nc = NULL;
	c = make_obj(12, &nc);
	e = econf_mergeFiles(&m2, m, c);
	printf("  chained merge with %s ", nc); prc(e); putchar('\n');
	if (m2) { dump_file("chained", m2, 0); econf_free(m2); }
	econf_free(c);
	econf_free(m);
      }
    }
}

static void g_merge_errors(void)
{
  const char *n;
  econf_file *a = make_obj(0, &n), *m = (econf_file *)0;
  econf_err e = econf_mergeFiles(&m, NULL, a);
  printf("MERGE base=NULL "); prc(e); printf(" out=%s\n", m ? "obj" : "NULL");
  if (m) econf_free(m);
  m = NULL;
  e = econf_mergeFiles(&m, a, NULL);
  printf("MERGE override=NULL "); prc(e); printf(" out=%s\n", m ? "obj" : "NULL");
  if (m) econf_free(m);
  m = NULL;
  e = econf_mergeFiles(&m, NULL, NULL);
  printf("MERGE both NULL "); prc(e); printf(" out=%s\n", m ? "obj" : "NULL");
  if (m) econf_free(m);
  dump_file("untouched", a, 0);
  econf_free(a);

  /* files read with other characters: the tags come from the base */
  econf_file *x = NULL, *y = NULL;
  econf_readFile(&x, mk("%s/single/s084_colon_delim.conf", D), ":", ";");
  econf_readFile(&y, mk("%s/single/s008_groups.conf", D), "=", "#");
  m = NULL;
  e = econf_mergeFiles(&m, x, y);
  printf("MERGE colon-file with equals-file "); prc(e); putchar('\n');
  if (m) { dump_file("merged", m, 0); write_reread(m, 0); econf_free(m); }
  m = NULL;
  e = econf_mergeFiles(&m, y, x);
  printf("MERGE equals-file with colon-file "); prc(e); putchar('\n');
  if (m) {
    dump_file("merged", m, 0);
    econf_set_delimiter_tag(m, '\t');
    econf_set_comment_tag(m, '%');
    write_reread(m, 0);
    econf_free(m);
  }
  econf_free(x); econf_free(y);

  /* long values, many keys */
  x = y = m = NULL;
  econf_readFile(&x, mk("%s/single/s091_value70000.conf", D), "=", "#");
  econf_readFile(&y, mk("%s/single/s093_many_keys.conf", D), "=", "#");
  e = econf_mergeFiles(&m, x, y);
  printf("MERGE long with many "); prc(e); putchar('\n');
  if (m) { dump_file("merged", m, 0); write_reread(m, 0); econf_free(m); }
  m = NULL;
  e = econf_mergeFiles(&m, y, x);
  printf("MERGE many with long "); prc(e); putchar('\n');
  if (m) { dump_file("merged", m, 0); econf_free(m); }
  econf_free(x); econf_free(y);
}

/* ------------------------------------------------------------------ */
/* group: errstr                                                      */
/* ------------------------------------------------------------------ */

static void g_errstr(void)
{
  char *fn = NULL;
  uint64_t line = 777;
  econf_errLocation(&fn, &line);
  printf("ERRLOC initial file="); pstr(fn); printf(" line=%" PRIu64 "\n", line);
  free(fn);
  for (int i = -2; i <= 40; i++) {
    const char *s = econf_errString((econf_err)i);
    printf("ERRSTRING %d ", i); pstr(s); putchar('\n');
  }
  printf("ERRSTRING 1000 "); pstr(econf_errString((econf_err)1000)); putchar('\n');
  /* the buffer of an unknown code is reused; known ones are stable */
  const char *a = econf_errString(ECONF_NOFILE), *b = econf_errString(ECONF_NOFILE);
  printf("ERRSTRING stable=%d\n", a == b && !strcmp(a, b));

  /* location after each kind of failure and after success */
  static const char *const files[] = { "s015_missing_bracket_l1.conf", "s006_simple.conf", "s019_text_after_mid.conf",
    "nosuch.conf", "s023_empty_section_end.conf", "s013_missing_delim_mid.conf", "s098_missing_delim_long.conf",
    "s097_bracket_long_tail.conf", "s001_empty.conf" };
  for (size_t i = 0; i < NELEM(files); i++) {
    econf_file *kf = NULL;
    econf_err e = econf_readFile(&kf, mk("%s/single/%s", D, files[i]), "=", "#");
    printf("ERRLOC after %s ", files[i]); prc(e); putchar('\n');
    perrloc();
    perrloc();
    if (kf) econf_free(kf);
  }
}

/* ------------------------------------------------------------------ */
/* group: api (NULL / empty arguments, second calls, free functions)  */
/* ------------------------------------------------------------------ */

static void g_api(void)
{
  econf_err e;
  econf_file *kf = NULL;
  const char *f8 = strdup(mk("%s/single/s008_groups.conf", D));
  const char *f6 = strdup(mk("%s/single/s006_simple.conf", D));

  printf("API free functions\n");
  printf("  freeFile(NULL)=%s\n", econf_freeFile(NULL) ? "non-NULL" : "NULL");
  printf("  freeArray(NULL)=%s\n", econf_freeArray(NULL) ? "non-NULL" : "NULL");
  econf_freeExtValue(NULL);
  { econf_file *n = NULL; char **arr = NULL; econf_freeFilep(&n); econf_freeArrayp(&arr);
    printf("  freeFilep/freeArrayp on NULL ok\n"); }
  { econf_file *n = NULL; n = econf_free(n); char **arr = NULL; arr = econf_free(arr);
    printf("  generic econf_free on NULL: %s %s\n", n ? "non-NULL" : "NULL", arr ? "non-NULL" : "NULL"); }
  { char **arr = calloc(1, sizeof(char *)); printf("  freeArray(empty)=%s\n", econf_freeArray(arr) ? "non-NULL" : "NULL"); }
  { econf_file *n = NULL; econf_newIniFile(&n); printf("  freeFile(new)=%s\n", econf_freeFile(n) ? "non-NULL" : "NULL"); }
  { econf_file *n = NULL; econf_newKeyFile_with_options(&n, ""); econf_freeFilep(&n); printf("  freeFilep(new)=%s\n", n ? "non-NULL" : "NULL"); }
  { econf_file *n = NULL; econf_readFile(&n, f8, "=", "#"); char **g = NULL; size_t c = 0;
    econf_getGroups(n, &c, &g); econf_freeArrayp(&g); printf("  freeArrayp(groups)=%s\n", g ? "non-NULL" : "NULL"); econf_freeFilep(&n); }

  printf("API tags on NULL\n");
  printf("  comment_tag(NULL)="); pchr(econf_comment_tag(NULL)); printf(" delimiter_tag(NULL)="); pchr(econf_delimiter_tag(NULL)); putchar('\n');
  econf_set_comment_tag(NULL, '#');
  econf_set_delimiter_tag(NULL, '=');

  printf("API getters with NULL / empty arguments\n");
  e = econf_readFile(&kf, f8, "=", "#");
  printf("  read "); prc(e); putchar('\n');
  {
    char *s = (char *)0; int32_t i = 5; int64_t l = 5; uint32_t u = 5; uint64_t ul = 5; float f = 5; double d = 5; bool b = true;
    econf_ext_value *ev = NULL;
    char **list = NULL; size_t n = 99;
#define G(call) do { econf_err e_ = (call); printf("  %s -> ", #call); prc(e_); putchar('\n'); } while (0)
    G(econf_getStringValue(NULL, "sec", "a", &s));
    G(econf_getIntValue(NULL, "sec", "a", &i));
    G(econf_getInt64Value(NULL, "sec", "a", &l));
    G(econf_getUIntValue(NULL, "sec", "a", &u));
    G(econf_getUInt64Value(NULL, "sec", "a", &ul));
    G(econf_getFloatValue(NULL, "sec", "a", &f));
    G(econf_getDoubleValue(NULL, "sec", "a", &d));
    G(econf_getBoolValue(NULL, "sec", "a", &b));
    G(econf_getExtValue(NULL, "sec", "a", &ev));
    G(econf_getStringValueDef(NULL, "sec", "a", &s, (char *)"d"));
    G(econf_getIntValueDef(NULL, "sec", "a", &i, 9));
    G(econf_getInt64ValueDef(NULL, "sec", "a", &l, 9));
    G(econf_getUIntValueDef(NULL, "sec", "a", &u, 9));
    G(econf_getUInt64ValueDef(NULL, "sec", "a", &ul, 9));
    G(econf_getFloatValueDef(NULL, "sec", "a", &f, 9));
    G(econf_getDoubleValueDef(NULL, "sec", "a", &d, 9));
    G(econf_getBoolValueDef(NULL, "sec", "a", &b, false));
    printf("  untouched: %s %d %" PRId64 " %u %" PRIu64 " %g %g %d\n", s ? "non-NULL" : "NULL", i, l, u, ul, (double)f, d, b);
    G(econf_getStringValue(kf, "sec", NULL, &s));
    G(econf_getStringValue(kf, "sec", "", &s));
    G(econf_getIntValue(kf, "sec", NULL, &i));
    G(econf_getIntValue(kf, "sec", "", &i));
    G(econf_getInt64Value(kf, NULL, NULL, &l));
    G(econf_getUIntValue(kf, "", "", &u));
    G(econf_getUInt64Value(kf, "sec", NULL, &ul));
    G(econf_getFloatValue(kf, "sec", "", &f));
    G(econf_getDoubleValue(kf, "sec", NULL, &d));
    G(econf_getBoolValue(kf, "sec", "", &b));
    G(econf_getExtValue(kf, "sec", NULL, &ev));
    G(econf_getExtValue(kf, "sec", "", &ev));
    G(econf_getExtValue(kf, "[sec]", "a", &ev));
    if (ev) { econf_freeExtValue(ev); ev = NULL; }
    G(econf_getStringValueDef(kf, "sec", NULL, &s, (char *)"d"));
    G(econf_getIntValueDef(kf, "sec", "", &i, 9));
    printf("  untouched: %s %d %" PRId64 " %u %" PRIu64 " %g %g %d\n", s ? "non-NULL" : "NULL", i, l, u, ul, (double)f, d, b);
    /* NULL result pointers for existing and missing keys */
    G(econf_getStringValue(kf, "sec", "a", NULL));
    G(econf_getIntValue(kf, "sec", "a", NULL));
    G(econf_getInt64Value(kf, "sec", "a", NULL));
    G(econf_getUIntValue(kf, "sec", "a", NULL));
    G(econf_getUInt64Value(kf, "sec", "a", NULL));
    G(econf_getFloatValue(kf, "sec", "a", NULL));
    G(econf_getDoubleValue(kf, "sec", "a", NULL));
    G(econf_getBoolValue(kf, "sec", "a", NULL));
    G(econf_getIntValue(kf, "sec", "nokey", NULL));
    G(econf_getStringValue(kf, "nogroup", "a", NULL));
    /* wrong group for an existing key */
    G(econf_getStringValue(kf, NULL, "a", &s));
    G(econf_getStringValue(kf, "other", "a", &s));
    G(econf_getStringValue(kf, "SEC", "a", &s));
    G(econf_getStringValue(kf, "sec ", "a", &s));
    G(econf_getStringValue(kf, "sec", "A", &s));
    G(econf_getStringValue(kf, "sec", "a ", &s));
    G(econf_getStringValue(kf, "sec", "ab", &s));
    G(econf_getStringValue(kf, "se", "a", &s));
    printf("  untouched: %s\n", s ? "non-NULL" : "NULL");
    /* listings */
    G(econf_getGroups(NULL, &n, &list));
    G(econf_getGroups(kf, &n, NULL));
    G(econf_getKeys(NULL, "sec", &n, &list));
    printf("  n=%zu list=%s\n", n, list ? "non-NULL" : "NULL");
    G(econf_getKeys(NULL, NULL, NULL, &list));
  }
  kf = econf_free(kf);

  printf("API listings on empty objects\n");
  {
    econf_file *objs[4] = { NULL, NULL, NULL, NULL };
    econf_newIniFile(&objs[0]);
    econf_newKeyFile_with_options(&objs[1], "");
    econf_readFile(&objs[2], mk("%s/single/s001_empty.conf", D), "=", "#");
    econf_readFile(&objs[3], mk("%s/single/s054_only_sections.conf", D), "=", "#");
    for (int i = 0; i < 4; i++) {
      dump_file(mk("empty%d", i), objs[i], 1);
      if (objs[i]) write_reread(objs[i], 0);
      econf_free(objs[i]);
    }
  }

  printf("API read entry points with NULL / empty arguments\n");
  {
    econf_file *r = NULL;
    e = econf_readFile(&r, NULL, "=", "#"); printf("  readFile name=NULL "); prc(e); printf(" out=%s\n", r ? "obj" : "NULL"); if (r) r = econf_free(r);
    e = econf_readFile(&r, "", "=", "#"); printf("  readFile name=\"\" "); prc(e); printf(" out=%s\n", r ? "obj" : "NULL"); if (r) r = econf_free(r);
    e = econf_readFile(&r, f8, NULL, "#"); printf("  readFile delim=NULL "); prc(e); printf(" out=%s\n", r ? "obj" : "NULL"); if (r) r = econf_free(r);
    e = econf_readFile(&r, f8, "=", NULL); printf("  readFile comment=NULL "); prc(e); printf(" out=%s\n", r ? "obj" : "NULL"); if (r) r = econf_free(r);
    e = econf_readFile(&r, D, "=", "#"); printf("  readFile directory "); prc(e); printf(" out=%s\n", r ? "obj" : "NULL");
    if (r) { dump_file("dir", r, 0); r = econf_free(r); }
    e = econf_readFile(&r, mk("%s/misc/afile/below", D), "=", "#"); printf("  readFile below-a-file "); prc(e); printf(" out=%s\n", r ? "obj" : "NULL"); if (r) r = econf_free(r);
    e = econf_readFile(&r, "relative/no/such", "=", "#"); printf("  readFile relative missing "); prc(e); printf(" out=%s\n", r ? "obj" : "NULL"); if (r) r = econf_free(r);
    { char *lp = malloc(6000); memset(lp, 'q', 5999); lp[0] = '/'; lp[5999] = 0;
      e = econf_readFile(&r, lp, "=", "#"); printf("  readFile 5999-byte name "); prc(e); printf(" out=%s\n", r ? "obj" : "NULL"); if (r) r = econf_free(r);
      memset(lp, 'q', 5999);
      e = econf_readFile(&r, lp, "=", "#"); printf("  readFile 5999-byte relative name "); prc(e); printf(" out=%s\n", r ? "obj" : "NULL"); if (r) r = econf_free(r);
      free(lp); }
    const char *usr = mk("%s/trees/t08_dropins_each_layer/usr/etc", D), *etc = mk("%s/trees/t08_dropins_each_layer/etc", D);
    e = econf_readDirs(&r, NULL, etc, "zz-econfdrv-9k3", "conf", "=", "#"); printf("  readDirs usr=NULL "); prc(e); printf(" out=%s\n", r ? "obj" : "NULL"); if (r) r = econf_free(r);
    e = econf_readDirs(&r, usr, NULL, "zz-econfdrv-9k3", "conf", "=", "#"); printf("  readDirs etc=NULL "); prc(e); printf(" out=%s\n", r ? "obj" : "NULL"); if (r) r = econf_free(r);
    e = econf_readDirs(&r, NULL, NULL, "zz-econfdrv-9k3", "conf", "=", "#"); printf("  readDirs both NULL "); prc(e); printf(" out=%s\n", r ? "obj" : "NULL"); if (r) r = econf_free(r);
    e = econf_readDirs(&r, "", "", "zz-econfdrv-9k3", "conf", "=", "#"); printf("  readDirs both empty "); prc(e); printf(" out=%s\n", r ? "obj" : "NULL"); if (r) r = econf_free(r);
    e = econf_readDirs(&r, usr, etc, "", "conf", "=", "#"); printf("  readDirs name=\"\" "); prc(e); printf(" out=%s\n", r ? "obj" : "NULL"); if (r) r = econf_free(r);
    e = econf_readDirs(&r, usr, etc, "ex", "conf", NULL, "#"); printf("  readDirs delim=NULL "); prc(e); printf(" out=%s\n", r ? "obj" : "NULL"); if (r) r = econf_free(r);
    e = econf_readDirs(&r, usr, etc, "ex", "conf", "=", NULL); printf("  readDirs comment=NULL "); prc(e); printf(" out=%s\n", r ? "obj" : "NULL"); if (r) r = econf_free(r);
    e = econf_readDirs(&r, usr, etc, "ex", "conf", "", ""); printf("  readDirs delim=\"\" comment=\"\" "); prc(e); printf(" out=%s\n", r ? "obj" : "NULL");
    if (r) { dump_file("dirs", r, 0); r = econf_free(r); }
    e = econf_readDirsWithCallback(&r, usr, etc, "ex", "conf", "=", "#", NULL, NULL); printf("  readDirsWithCallback callback=NULL "); prc(e); printf(" out=%s\n", r ? "obj" : "NULL"); if (r) r = econf_free(r);
    e = econf_readDirsWithCallback(&r, usr, etc, "ex", "conf", "=", "#", cb_check, NULL); printf("  readDirsWithCallback data=NULL "); prc(e); printf(" out=%s\n", r ? "obj" : "NULL"); if (r) r = econf_free(r);
    e = econf_readDirsWithCallback(&r, NULL, NULL, "zz-econfdrv-9k3", "conf", "=", "#", cb_check, NULL); printf("  readDirsWithCallback dirs NULL "); prc(e); printf(" out=%s\n", r ? "obj" : "NULL"); if (r) r = econf_free(r);
    e = econf_readDirsWithCallback(&r, NULL, etc, "ex", "conf", "=", "#", cb_check, NULL); printf("  readDirsWithCallback usr=NULL "); prc(e); printf(" out=%s\n", r ? "obj" : "NULL");
    if (r) { dump_file("dirs", r, 0); r = econf_free(r); }
    /* a relative name which lstat() finds and realpath() does not: a dangling link */
    if (chdir(mk("%s/trees/t14_dangling_dropin/etc/ex.conf.d", D)) == 0) {
      e = econf_readFile(&r, "70-d.conf", "=", "#"); printf("  readFile relative dangling link "); prc(e); printf(" out=%s\n", r ? "obj" : "NULL"); if (r) r = econf_free(r);
      e = econf_readFile(&r, "10-ok.conf", "=", "#"); printf("  readFile relative sibling "); prc(e); printf(" out=%s\n", r ? "obj" : "NULL");
      if (r) { dump_file("rel", r, 0); r = econf_free(r); }
      e = econf_readDirs(&r, "../../usr/etc", "..", "ex", "conf", "=", "#"); printf("  readDirs relative dirs "); prc(e); printf(" out=%s\n", r ? "obj" : "NULL");
      perrloc();
      if (r) { dump_file("rel", r, 0); r = econf_free(r); }
    }
    econf_file **h = NULL; size_t hs = 4242;
    e = econf_readDirsHistoryWithCallback(&h, &hs, NULL, NULL, "zz-econfdrv-9k3", "conf", "=", "#", cb_check, NULL); printf("  readDirsHistoryWithCallback dirs NULL "); prc(e); printf(" out=%s size=%zu\n", h ? "obj" : "NULL", hs);
    h = NULL; hs = 4242;
    e = econf_readDirsHistory(&h, &hs, NULL, NULL, "zz-econfdrv-9k3", "conf", "=", "#"); printf("  readDirsHistory dirs NULL "); prc(e); printf(" out=%s size=%zu\n", h ? "obj" : "NULL", hs);
    h = NULL; hs = 4242;
    e = econf_readDirsHistory(&h, &hs, usr, etc, "ex", "conf", NULL, "#"); printf("  readDirsHistory delim=NULL "); prc(e); printf(" out=%s size=%zu\n", h ? "obj" : "NULL", hs);
    h = NULL; hs = 4242;
    e = econf_readDirsHistory(&h, &hs, usr, etc, "ex", "conf", "=", NULL); printf("  readDirsHistory comment=NULL "); prc(e); printf(" out=%s size=%zu\n", h ? "obj" : "NULL", hs);
    h = NULL; hs = 4242;
    e = econf_readDirsHistoryWithCallback(&h, &hs, usr, etc, "ex", "conf", "=", "#", NULL, NULL); printf("  readDirsHistoryWithCallback callback=NULL "); prc(e); putchar('\n');
    dump_history(e, &h, hs, 0);
  }

  printf("API writeFile errors\n");
  {
    econf_file *r = NULL;
    econf_readFile(&r, f8, "=", "#");
    e = econf_writeFile(NULL, W, "x.out"); printf("  writeFile kf=NULL "); prc(e); putchar('\n');
    e = econf_writeFile(r, mk("%s/no-such-dir", W), "x.out"); printf("  writeFile missing dir "); prc(e); putchar('\n');
    e = econf_writeFile(r, mk("%s/misc/afile", D), "x.out"); printf("  writeFile dir is a file "); prc(e); putchar('\n');
    e = econf_writeFile(r, mk("%s/misc/afile/sub", D), "x.out"); printf("  writeFile dir below a file "); prc(e); putchar('\n');
    mkdir(mk("%s/isdir.out", W), 0755);
    e = econf_writeFile(r, W, "isdir.out"); printf("  writeFile target is a directory "); prc(e); putchar('\n');
    e = econf_writeFile(r, W, "sub/x.out"); printf("  writeFile name with missing subdir "); prc(e); putchar('\n');
    e = econf_writeFile(r, "", "x.out"); printf("  writeFile dir=\"\" "); prc(e); putchar('\n');
    e = econf_writeFile(r, W, "ok.out"); printf("  writeFile ok "); prc(e); putchar('\n');
    e = econf_writeFile(r, W, "ok.out"); printf("  writeFile overwrite "); prc(e); putchar('\n');
    dump_bytes(mk("%s/ok.out", W));
    e = econf_writeFile(r, mk("%s/", W), "ok2.out"); printf("  writeFile dir with slash "); prc(e); putchar('\n');
    dump_bytes(mk("%s/ok2.out", W));
    /* relative directory */
    if (chdir(W) == 0) {
      e = econf_writeFile(r, ".", "rel.out"); printf("  writeFile relative dir "); prc(e); putchar('\n');
      dump_bytes(mk("%s/rel.out", W));
    }
    dump_file("after-writes", r, 0);
    econf_free(r);
  }

  printf("API second calls\n");
  {
    econf_file *a = NULL, *old;
    e = econf_readFile(&a, f8, "=", "#");
    old = a;
    e = econf_readFile(&a, f6, "=", "#");
    printf("  readFile into a used pointer "); prc(e); printf(" new-object=%s\n", a != old ? "yes" : "no");
    dump_file("second", a, 0);
    dump_file("first", old, 0);
    if (a != old) econf_free(old);
    old = a;
    e = econf_readFile(&a, mk("%s/single/nosuch.conf", D), "=", "#");
    printf("  failing readFile into a used pointer "); prc(e); printf(" out=%s\n", a ? "obj" : "NULL");
    econf_free(old);
    if (a && a != old) econf_free(a);
    /* the same file twice: independent objects */
    econf_file *x = NULL, *y = NULL;
    econf_readFile(&x, f8, "=", "#");
    econf_readFile(&y, f8, "=", "#");
    SET(econf_setStringValue(x, "sec", "a", "only in x"));
    dump_file("x", x, 0);
    dump_file("y", y, 0);
    econf_free(x); econf_free(y);
  }
  {
    /* repeated readConfig on one handle */
    econf_file *h = NULL;
    const char *usr = strdup(mk("%s/misc/second", D));
    e = econf_newKeyFile_with_options(&h, mk("ROOT_PREFIX=%s/trees/t08_dropins_each_layer;JOIN_SAME_ENTRIES=1", D));
    printf("  handle "); prc(e); putchar('\n');
    e = econf_readConfig(&h, NULL, "/usr/etc", "ex", "conf", "=", "#");
    printf("  first readConfig "); prc(e); putchar('\n');
    if (h) dump_file("first", h, 0);
    e = econf_readConfig(&h, "zz-econfdrv-9k3", usr, "ex", "conf", "=", "#");
    printf("  second readConfig on the result "); prc(e); putchar('\n');
    if (h) dump_file("second", h, 0);
    e = econf_readConfig(&h, "zz-econfdrv-9k3", mk("%s/misc/nothing-here", D), "ex", "conf", "=", "#");
    printf("  third readConfig (no file) "); prc(e); printf(" out=%s\n", h ? "obj" : "NULL");
    if (h) dump_file("third", h, 0);
    e = econf_readConfig(&h, "zz-econfdrv-9k3", usr, "ex", "conf", "=", "#");
    printf("  fourth readConfig "); prc(e); printf(" out=%s\n", h ? "obj" : "NULL");
    if (h) dump_file("fourth", h, 0);
    h = econf_free(h);
    /* a failing handle is reusable */
    e = econf_newKeyFile_with_options(&h, mk("ROOT_PREFIX=%s/trees/t18_malformed_main", D));
    e = econf_readConfig(&h, NULL, "/usr/etc", "ex", "conf", "=", "#");
    printf("  readConfig malformed "); prc(e); printf(" out=%s\n", h ? "obj" : "NULL");
    perrloc();
    e = econf_readConfig(&h, NULL, "/usr/etc", "ex", "conf", "=", "#");
    printf("  readConfig malformed again "); prc(e); printf(" out=%s\n", h ? "obj" : "NULL");
    e = econf_readConfig(&h, NULL, "/usr/etc", "no-such", "conf", "=", "#");
    printf("  readConfig other name on the same handle "); prc(e); printf(" out=%s\n", h ? "obj" : "NULL");
    h = econf_free(h);
    free((char *)usr);
  }
  {
    /* queries do not change the object: dump, query a lot, dump again */
    econf_file *q = NULL;
    econf_readFile(&q, mk("%s/single/s050_bools.conf", D), "=", "#");
    dump_file("before-queries", q, 0);
    for (int i = 0; i < 3; i++) {
      bool b; char *s = NULL; int32_t n;
      econf_getBoolValue(q, NULL, "b7", &b);
      econf_getBoolValue(q, NULL, "b9", &b);
      econf_getBoolValue(q, NULL, "b18", &b);
      econf_getIntValue(q, NULL, "b7", &n);
      econf_getStringValueDef(q, NULL, "zzz", &s, (char *)"d"); free(s);
    }
    dump_file("after-queries", q, 0);
    write_reread(q, 0);
    econf_free(q);
  }
  free((char *)f8); free((char *)f6);
}

/* ------------------------------------------------------------------ */
/* group: longpath                                                    */
/* ------------------------------------------------------------------ */

static void g_longpath(void)
{
  FILE *l = fopen(mk("%s/longpath/list", D), "r");
  char line[PATH_MAX + 64];
  if (!l) { printf("LONGPATH no list\n"); return; }
  while (fgets(line, sizeof line, l)) {
    line[strcspn(line, "\n")] = 0;
    char *p = strdup(mk("%s/%s", D, line));
    printf("LONGPATH absolute length %zu\n", strlen(p));
    econf_file *kf = NULL;
    econf_err e = econf_readFile(&kf, p, "=", "#");
    printf("  readFile "); prc(e); putchar('\n');
    after_read("long", e, &kf, 0, 0);
    struct cbdata cd = { 0, 0, NULL, 0 };
    e = econf_readFileWithCallback(&kf, p, "=", "#", cb_check, &cd);
    printf("  readFileWithCallback "); prc(e); putchar('\n');
    after_read("long", e, &kf, 0, 0);
    /* relative to the data dir */
    if (chdir(D) == 0) {
      e = econf_readFile(&kf, line, "=", "#");
      printf("  readFile relative "); prc(e); putchar('\n');
      after_read("long", e, &kf, 0, 0);
    }
    /* the directory as layer: main file f.conf, and as target of a write */
    char *dir = strdup(p);
    *strrchr(dir, '/') = 0;
    read_dirs(dir, mk("%s/nosuch", dir), "f", "conf", "=", "#", NULL, 0, 0);
    read_history(mk("%s/nosuch", dir), dir, "f", ".conf", "=", "#", NULL, 0);
    read_config("readConfig", mk("PARSING_DIRS=%s", dir), NULL, NULL, "f", "conf", "=", "#", NULL, 0, 0);
    read_config("readConfig", mk("ROOT_PREFIX=%s", dir), NULL, "", "f", "conf", "=", "#", NULL, 0, 0);
    read_config("readConfig", NULL, "zz-econfdrv-9k3", dir, "f", "conf", "=", "#", NULL, 0, 0);
    econf_file *w = NULL;
    econf_newIniFile(&w);
    econf_setStringValue(w, "g", "k", "written into a long path");
    e = econf_writeFile(w, dir, "o.out");
    printf("  writeFile o.out "); prc(e); putchar('\n');
    if (e == ECONF_SUCCESS) { dump_bytes(mk("%s/o.out", dir)); unlink(mk("%s/o.out", dir)); }
    e = econf_writeFile(w, dir, "a-longer-name-which-exceeds-the-limit.out");
    printf("  writeFile longer name "); prc(e); putchar('\n');
    if (e == ECONF_SUCCESS) unlink(mk("%s/a-longer-name-which-exceeds-the-limit.out", dir));
    econf_free(w);
    free(dir);
    free(p);
  }
  fclose(l);
}

/* ------------------------------------------------------------------ */
/* group: threads                                                     */
/* ------------------------------------------------------------------ */

struct tres { int id; char *out; size_t len; };

static void *thread_main(void *arg)
{
  struct tres *t = arg;
  FILE *o = open_memstream(&t->out, &t->len);
  static const char *const files[] = { "s008_groups.conf", "s030_reopened_sections.conf", "s033_multiline.conf", "s048_ints.conf" };
  char *p1 = NULL, *p2 = NULL;
  if (asprintf(&p1, "%s/single/%s", D, files[t->id % 4]) < 0 || asprintf(&p2, "%s/single/%s", D, files[(t->id + 1) % 4]) < 0)
    abort();
  unsigned long sum = 0;
  for (int round = 0; round < 40; round++) {
    econf_file *a = NULL, *b = NULL, *m = NULL;
    econf_err e1 = econf_readFile(&a, p1, "=", "#");
    econf_err e2 = econf_readFile(&b, p2, "=", "#");
    econf_err e3 = econf_mergeFiles(&m, a, b);
    econf_setIntValue(m, "thread", "id", t->id);
    econf_setIntValue(m, "thread", "round", round);
    char **g = NULL, **k = NULL; size_t ng = 0, nk = 0;
    econf_getGroups(m, &ng, &g);
    for (size_t i = 0; i < ng; i++) {
      econf_getKeys(m, g[i], &nk, &k);
      for (size_t j = 0; j < nk; j++) {
	char *s = NULL;
	econf_getStringValue(m, g[i], k[j], &s);
	sum = sum * 31 + fnv(s ? s : "", s ? strlen(s) : 0);
	free(s);
      }
      k = econf_freeArray(k);
    }
    econf_freeArray(g);
    if (round == 39) {
      int32_t id = -1;
      econf_getIntValue(m, "thread", "id", &id);
      fprintf(o, "thread %d: rc %d %d %d groups=%zu id=%d sum=%lu\n", t->id, e1, e2, e3, ng, id, sum);
    }
    econf_free(a); econf_free(b); econf_free(m);
  }
  free(p1); free(p2);
  fclose(o);
  return NULL;
}

static void g_threads(void)
{
  enum { NT = 6 };
  pthread_t th[NT];
  struct tres res[NT];
  for (int i = 0; i < NT; i++) {
    res[i].id = i; res[i].out = NULL; res[i].len = 0;
    pthread_create(&th[i], NULL, thread_main, &res[i]);
  }
  for (int i = 0; i < NT; i++) {
    pthread_join(th[i], NULL);
    printf("THREADS %s", res[i].out ? res[i].out : "(nothing)\n");
    free(res[i].out);
  }
}

/* ------------------------------------------------------------------ */

static int cmpstr(const void *a, const void *b)
{
  return strcmp(*(char *const *)a, *(char *const *)b);
}

static void list_dir(const char *dir, const char *group)
{
  struct dirent *de;
  DIR *d = opendir(dir);
  char **names = NULL;
  size_t n = 0;
  if (!d) return;
  while ((de = readdir(d)) != NULL) {
    if (de->d_name[0] == '.') continue;
    names = realloc(names, (n + 1) * sizeof *names);
    names[n++] = strdup(de->d_name);
  }
  closedir(d);
  qsort(names, n, sizeof *names, cmpstr);
  for (size_t i = 0; i < n; i++) {
    printf("%s %s\n", group, names[i]);
    free(names[i]);
  }
  free(names);
}

int main(int argc, char **argv)
{
  setvbuf(stdout, NULL, _IOFBF, 1 << 16);
  if (argc == 3 && !strcmp(argv[1], "list")) {
    printf("errstr\napi\n");
    list_dir(mk("%s/single", argv[2]), "single");
    list_dir(mk("%s/trees", argv[2]), "tree");
    printf("confdirs\noptions\nsecurity\nsetters\n");
    for (int i = 0; i < NOBJ; i++) printf("merge %d\n", i);
    printf("mergeerr\nlongpath\nthreads\n");
    return 0;
  }
  if (argc < 4) {
    fprintf(stderr, "usage: %s <data-dir> <work-dir> <group> [<arg>]\n       %s list <data-dir>\n", argv[0], argv[0]);
    return 2;
  }
  if (!realpath(argv[1], D) || !realpath(argv[2], W)) {
    fprintf(stderr, "cannot resolve %s or %s\n", argv[1], argv[2]);
    return 2;
  }
  Dl = strlen(D);
  Wl = strlen(W);
  const char *g = argv[3], *arg = argc > 4 ? argv[4] : NULL;
  printf("=== GROUP %s%s%s\n", g, arg ? " " : "", arg ? arg : "");
  if (!strcmp(g, "single") && arg) g_single(arg);
  else if (!strcmp(g, "tree") && arg) g_tree(arg);
  else if (!strcmp(g, "confdirs")) g_confdirs();
  else if (!strcmp(g, "options")) g_options();
  else if (!strcmp(g, "security")) g_security();
  else if (!strcmp(g, "setters")) g_setters();
  else if (!strcmp(g, "merge")) g_merge(arg);
  else if (!strcmp(g, "mergeerr")) g_merge_errors();
  else if (!strcmp(g, "errstr")) g_errstr();
  else if (!strcmp(g, "api")) g_api();
  else if (!strcmp(g, "longpath")) g_longpath();
  else if (!strcmp(g, "threads")) g_threads();
  else { fprintf(stderr, "unknown group %s\n", g); return 2; }
  printf("=== END %s%s%s\n", g, arg ? " " : "", arg ? arg : "");
  fflush(stdout);
  return 0;
}
