#!/bin/bash
# tools/seed_verify.sh <PROP> <k>   - re-verify a seeded change produced in the scratch worktree /tmp/seed/<PROP>
# (compiles, 48/48 tests, demo passes on the pristine tree and fails with the change), then store it
# as /verif/seeded/<PROP>-<k>/ {patch.diff, demo files, notes.md, meta.json}.
set -u
P=$1; K=$2; S=${3:-$2}   # S = index under which the change is stored (round 2: out/1 -> seeded/<P>-5 ...)
W=${SEED_WT:-/tmp/seed/$P}
V=$(cd "$(dirname "$0")/.." && pwd)
O=$W/out/$K
[ -f "$O/patch.diff" ] || { echo "no patch $O/patch.diff"; exit 2; }
cd "$W" || exit 2
git checkout -q -- . 
build() { cmake -G Ninja -S . -B _build >/dev/null 2>&1 && cmake --build _build >/dev/null 2>&1 && cmake --build _build --target check >/dev/null 2>&1; ctest --test-dir _build -j8 2>&1 | grep -E "tests passed|tests failed" ; }
run_demo() { ( cd "$W" && timeout 600 bash "$O/run_demo.sh" >"$O/.demo.log" 2>&1 ); echo $?; }
echo "== pristine"
T0=$(build); echo "$T0"
D0=$(run_demo); echo "demo exit $D0"
echo "== with change"
git apply "$O/patch.diff" || { echo "PATCH DOES NOT APPLY"; exit 3; }
T1=$(build); echo "$T1"
D1=$(run_demo); echo "demo exit $D1"
tail -5 "$O/.demo.log"
git checkout -q -- .
build >/dev/null
ok=no
if echo "$T0" | grep -q "100% tests passed" && echo "$T1" | grep -q "100% tests passed" && [ "$D0" = 0 ] && [ "$D1" != 0 ]; then ok=yes; fi
echo "VERIFIED=$ok"
if [ $ok = yes ]; then
  D=$V/seeded/$P-$S
  mkdir -p "$D"
  cp "$O/patch.diff" "$D/patch.diff"
  for f in "$O"/*; do case "$(basename $f)" in patch.diff|.demo.log) ;; *) cp -r "$f" "$D/";; esac; done
  python3 - "$D" "$P" "$S" "$T0" "$T1" "$D0" "$D1" <<'PY'
import json, sys, os, subprocess
d, p, k, t0, t1, d0, d1 = sys.argv[1:8]
notes = open(os.path.join(d, "notes.md")).read() if os.path.exists(os.path.join(d, "notes.md")) else ""
base = subprocess.check_output(["git", "-C", os.environ.get("SEED_WT", "/tmp/seed/" + p), "rev-parse", "--short", "HEAD"], text=True).strip()
meta = {"breaks_property": p, "seed": "%s-%s" % (p, k), "base_commit_of_patch": base,
        "needs_to_manifest": "see notes.md",
        "verified_by_me": {"pristine_tests": t0.strip(), "pristine_demo_exit": int(d0), "changed_tests": t1.strip(), "changed_demo_exit": int(d1),
                           "how": "tools/seed_verify.sh %s %s: scratch worktree /tmp/seed/%s, cmake+ninja build, ctest -j8, bash run_demo.sh" % (p, k, p)},
        "detected_by": "filled in by tools/seed_check.py"}
json.dump(meta, open(os.path.join(d, "meta.json"), "w"), indent=1)
PY
fi
