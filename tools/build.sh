#!/bin/sh
# setup_cmd: builds the only compiled part of the machinery (offline, ~30 s).
set -e
cd "$(dirname "$0")/.."
mkdir -p bin evidence reports
SRC=tools/extract/econf_facts.cc
OUT=bin/econf-facts
if [ ! -x "$OUT" ] || [ "$SRC" -nt "$OUT" ]; then
  clang++ $(llvm-config-14 --cxxflags) -fno-rtti -O1 "$SRC" -o "$OUT" \
    /usr/lib/llvm-14/lib/libclang-cpp.so.14 /usr/lib/llvm-14/lib/libLLVM-14.so
fi
echo "built $OUT"
