#!/bin/sh
# developer helper:  tools/mut.sh <patch-file|-e sed-expr file> -- <prop> [...]
# copies /repo's sources to a scratch dir, applies the change, runs ./check against the copy.
set -e
V=$(cd "$(dirname "$0")/.." && pwd)
S=$(mktemp -d /tmp/econf-mut-XXXXXX)
trap 'rm -rf "$S"' EXIT
mkdir -p "$S/repo"
(cd /repo && tar cf - --exclude=_build --exclude=.git .) | (cd "$S/repo" && tar xf -)
if [ "$1" = "-r" ]; then
  # literal replace:  -r <file> <old> <new>   (must match exactly once)
  python3 - "$S/repo/$2" "$3" "$4" <<'PY'
import sys
p, old, new = sys.argv[1:4]
s = open(p).read()
if s.count(old) != 1:
    sys.exit("mut.sh -r: %d matches for %r" % (s.count(old), old))
open(p, "w").write(s.replace(old, new))
PY
  shift 4
elif [ "$1" = "-e" ]; then
  sed -i -E "$2" "$S/repo/$3"; shift 3
  (cd /repo && diff -u "$OLDPWD/$3" /dev/null >/dev/null 2>&1 || true)
else
  (cd "$S/repo" && patch -p1 -s < "$1"); shift 1
fi
[ "$1" = "--" ] && shift
for f in lib util include; do diff -ru /repo/$f "$S/repo/$f" | grep '^[-+][^-+]' | head -${MUT_DIFF_LINES:-6} || true; done
clang -fsyntax-only -w -D_GNU_SOURCE -I"$S/repo/include" "$S"/repo/lib/*.c "$S"/repo/util/*.c || { echo "MUTANT DOES NOT COMPILE"; exit 3; }
rc=0
for p in "$@"; do
  VERIF_REPO="$S/repo" VERIF_DB_FROM=/repo VERIF_NO_EVIDENCE=1 VERIF_REPORT_DIR="$S/reports" "$V/check" "$p" || rc=$?
done
exit $rc
