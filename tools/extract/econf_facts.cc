// econf-facts: clang-14 libTooling front end.  Serialises the type-checked program
// (typed statement/expression trees, clang's CFG, records, enums, globals) of one
// translation unit as JSON on stdout.  It judges nothing; all rules live in /verif/sa
// and /verif/rules (Python).
//
// usage: econf-facts --root=/repo file.c -- <compile flags>

#include "clang/AST/ASTConsumer.h"
#include "clang/AST/ASTContext.h"
#include "clang/AST/Attr.h"
#include "clang/AST/Decl.h"
#include "clang/AST/Expr.h"
#include "clang/AST/RecursiveASTVisitor.h"
#include "clang/AST/Stmt.h"
#include "clang/Analysis/CFG.h"
#include "clang/Basic/SourceManager.h"
#include "clang/Frontend/CompilerInstance.h"
#include "clang/Frontend/FrontendAction.h"
#include "clang/Lex/Lexer.h"
#include "clang/Tooling/CommonOptionsParser.h"
#include "clang/Tooling/Tooling.h"
#include "llvm/Support/CommandLine.h"
#include "llvm/Support/JSON.h"
#include "llvm/Support/raw_ostream.h"

#include <map>
#include <string>
#include <vector>

using namespace clang;
using namespace clang::tooling;
namespace json = llvm::json;

static llvm::cl::OptionCategory Cat("econf-facts options");
static llvm::cl::opt<std::string> Root("root", llvm::cl::desc("only dump declarations located under this directory"),
                                       llvm::cl::init("/repo"), llvm::cl::cat(Cat));

namespace {

// Bytes -> JSON-safe string (latin-1 style escape of non-ASCII so that the JSON stays valid UTF-8).
std::string safe(llvm::StringRef S) {
  std::string R;
  for (unsigned char C : S) {
    if (C < 0x80)
      R.push_back((char)C);
    else {
      R.push_back((char)(0xC0 | (C >> 6)));
      R.push_back((char)(0x80 | (C & 0x3F)));
    }
  }
  return R;
}

class Dumper {
public:
  Dumper(ASTContext &Ctx) : Ctx(Ctx), SM(Ctx.getSourceManager()) {}

  ASTContext &Ctx;
  SourceManager &SM;
  std::map<const Decl *, int> DeclIds;
  int NextDecl = 1;

  int declId(const Decl *D) {
    D = D->getCanonicalDecl();
    auto It = DeclIds.find(D);
    if (It != DeclIds.end())
      return It->second;
    return DeclIds[D] = NextDecl++;
  }

  bool inRoot(SourceLocation L) {
    if (L.isInvalid())
      return false;
    SourceLocation E = SM.getExpansionLoc(L);
    llvm::StringRef F = SM.getFilename(E);
    return F.startswith(Root);
  }

  std::string fileOf(SourceLocation L) {
    SourceLocation E = SM.getExpansionLoc(L);
    return SM.getFilename(E).str();
  }

  void putLoc(json::Object &O, SourceLocation L) {
    if (L.isInvalid())
      return;
    SourceLocation E = SM.getExpansionLoc(L);
    O["line"] = (int64_t)SM.getExpansionLineNumber(E);
    O["col"] = (int64_t)SM.getExpansionColumnNumber(E);
    if (L.isMacroID()) {
      O["mac"] = Lexer::getImmediateMacroName(L, SM, Ctx.getLangOpts()).str();
      // outermost macro (the one written in the source file)
      SourceLocation Cur = L;
      std::string Outer;
      while (Cur.isMacroID()) {
        Outer = Lexer::getImmediateMacroName(Cur, SM, Ctx.getLangOpts()).str();
        if (SM.isMacroArgExpansion(Cur))
          Cur = SM.getImmediateSpellingLoc(Cur);
        else
          Cur = SM.getImmediateExpansionRange(Cur).getBegin();
      }
      O["omac"] = Outer;
    }
  }

  void putType(json::Object &O, QualType T) {
    if (T.isNull())
      return;
    O["t"] = T.getAsString();
    QualType C = T.getCanonicalType();
    O["ct"] = C.getAsString();
    if (C->isIntegerType() || C->isPointerType() || C->isRealFloatingType()) {
      O["w"] = (int64_t)Ctx.getTypeSize(C);
      if (C->isIntegerType())
        O["sg"] = C->isSignedIntegerOrEnumerationType();
    }
  }

  // ---- statement trees -------------------------------------------------------------
  struct Tree {
    json::Array Nodes;
    std::map<const Stmt *, int> Ids;
  };

  json::Object varInfo(const VarDecl *VD, Tree &T) {
    json::Object D;
    D["name"] = VD->getNameAsString();
    D["did"] = declId(VD);
    putType(D, VD->getType());
    D["static"] = VD->isStaticLocal() || VD->getStorageClass() == SC_Static;
    D["extern"] = VD->hasExternalStorage();
    D["const"] = VD->getType().isConstQualified();
    if (VD->getTLSKind() != VarDecl::TLS_None)
      D["tls"] = true;
    if (const auto *CA = VD->getAttr<CleanupAttr>())
      D["cleanup"] = CA->getFunctionDecl()->getNameAsString();
    if (const auto *AT = Ctx.getAsConstantArrayType(VD->getType())) {
      json::Object A;
      A["size"] = (int64_t)AT->getSize().getZExtValue();
      putType(A, AT->getElementType());
      if (auto TSI = VD->getTypeSourceInfo()) {
        TypeLoc TL = TSI->getTypeLoc();
        if (auto ATL = TL.getAs<ConstantArrayTypeLoc>()) {
          if (Expr *SE = ATL.getSizeExpr()) {
            SourceLocation B = SE->getBeginLoc();
            if (B.isMacroID())
              A["size_mac"] = Lexer::getImmediateMacroName(B, SM, Ctx.getLangOpts()).str();
            CharSourceRange R = CharSourceRange::getTokenRange(SM.getExpansionRange(SE->getSourceRange()).getAsRange());
            A["size_src"] = Lexer::getSourceText(R, SM, Ctx.getLangOpts()).str();
          }
        }
      }
      D["arr"] = std::move(A);
    }
    if (VD->hasInit())
      D["init"] = dumpStmt(VD->getInit(), T);
    putLoc(D, VD->getLocation());
    return D;
  }

  int dumpStmt(const Stmt *S, Tree &T) {
    if (!S)
      return -1;
    auto It = T.Ids.find(S);
    if (It != T.Ids.end())
      return It->second;
    int Id = (int)T.Nodes.size();
    T.Ids[S] = Id;
    T.Nodes.push_back(nullptr); // reserve slot (pre-order ids)
    json::Object O;
    O["id"] = Id;
    O["k"] = S->getStmtClassName();
    putLoc(O, S->getBeginLoc());
    {
      SourceLocation E = SM.getExpansionLoc(S->getEndLoc());
      if (E.isValid())
        O["eline"] = (int64_t)SM.getExpansionLineNumber(E);
    }
    json::Array Ch;
    bool ChildrenDone = false;

    if (const auto *E = dyn_cast<Expr>(S)) {
      putType(O, E->getType());
      O["lv"] = E->isLValue();
      // constant value as clang evaluates it
      if (!E->isValueDependent() && E->getType()->isIntegralOrEnumerationType() && E->isPRValue()) {
        Expr::EvalResult R;
        if (E->EvaluateAsInt(R, Ctx, Expr::SE_NoSideEffects)) {
          llvm::APSInt V = R.Val.getInt();
          if (V.isSigned() || V.getActiveBits() <= 63)
            O["cv"] = (int64_t)V.getExtValue();
          else
            O["cvs"] = llvm::toString(V, 10);
        }
      }
    }

    if (const auto *BO = dyn_cast<BinaryOperator>(S)) {
      O["op"] = BO->getOpcodeStr().str();
    } else if (const auto *UO = dyn_cast<UnaryOperator>(S)) {
      O["op"] = UnaryOperator::getOpcodeStr(UO->getOpcode()).str();
      O["postfix"] = UO->isPostfix();
    } else if (const auto *DR = dyn_cast<DeclRefExpr>(S)) {
      const ValueDecl *D = DR->getDecl();
      O["name"] = D->getNameAsString();
      O["did"] = declId(D);
      const char *DK = "other";
      if (isa<ParmVarDecl>(D))
        DK = "param";
      else if (const auto *VD = dyn_cast<VarDecl>(D)) {
        if (VD->isStaticLocal())
          DK = "static_local";
        else if (VD->isLocalVarDecl())
          DK = "local";
        else
          DK = VD->getStorageClass() == SC_Static ? "static_global" : "global";
      } else if (isa<FunctionDecl>(D))
        DK = "func";
      else if (const auto *EC = dyn_cast<EnumConstantDecl>(D)) {
        DK = "enum";
        O["val"] = (int64_t)EC->getInitVal().getExtValue();
      }
      O["dk"] = DK;
    } else if (const auto *ME = dyn_cast<MemberExpr>(S)) {
      O["member"] = ME->getMemberDecl()->getNameAsString();
      O["arrow"] = ME->isArrow();
      if (const auto *FD = dyn_cast<FieldDecl>(ME->getMemberDecl())) {
        O["rec"] = FD->getParent()->getNameAsString();
        O["fidx"] = (int64_t)FD->getFieldIndex();
      }
    } else if (const auto *CE = dyn_cast<CallExpr>(S)) {
      if (const FunctionDecl *FD = CE->getDirectCallee()) {
        O["callee"] = FD->getNameAsString();
        if (unsigned B = FD->getBuiltinID())
          O["builtin"] = (int64_t)B;
      }
      O["nargs"] = (int64_t)CE->getNumArgs();
    } else if (const auto *IL = dyn_cast<IntegerLiteral>(S)) {
      O["val"] = (int64_t)IL->getValue().getLimitedValue();
    } else if (const auto *CL = dyn_cast<CharacterLiteral>(S)) {
      O["val"] = (int64_t)CL->getValue();
    } else if (const auto *FL = dyn_cast<FloatingLiteral>(S)) {
      llvm::SmallString<32> Str;
      FL->getValue().toString(Str);
      O["fval"] = Str.str().str();
    } else if (const auto *SL = dyn_cast<StringLiteral>(S)) {
      if (SL->getCharByteWidth() == 1)
        O["str"] = safe(SL->getBytes());
    } else if (const auto *CastE = dyn_cast<CastExpr>(S)) {
      O["ck"] = CastE->getCastKindName();
      json::Object From;
      putType(From, CastE->getSubExpr()->getType());
      O["from"] = std::move(From);
    } else if (const auto *UE = dyn_cast<UnaryExprOrTypeTraitExpr>(S)) {
      O["trait"] = (int64_t)UE->getKind();
      if (UE->isArgumentType()) {
        json::Object A;
        putType(A, UE->getArgumentType());
        O["argtype"] = std::move(A);
      }
    } else if (const auto *GS = dyn_cast<GenericSelectionExpr>(S)) {
      if (!GS->isResultDependent())
        Ch.push_back(dumpStmt(GS->getResultExpr(), T));
      ChildrenDone = true;
    } else if (const auto *DS = dyn_cast<DeclStmt>(S)) {
      json::Array Ds;
      for (const Decl *D : DS->decls()) {
        if (const auto *VD = dyn_cast<VarDecl>(D)) {
          json::Object V = varInfo(VD, T);
          if (V.get("init"))
            Ch.push_back(*V.get("init"));
          Ds.push_back(std::move(V));
        }
      }
      O["decls"] = std::move(Ds);
      ChildrenDone = true;
    } else if (const auto *IS = dyn_cast<IfStmt>(S)) {
      O["cond"] = dumpStmt(IS->getCond(), T);
      O["then"] = dumpStmt(IS->getThen(), T);
      O["else"] = dumpStmt(IS->getElse(), T);
    } else if (const auto *WS = dyn_cast<WhileStmt>(S)) {
      O["cond"] = dumpStmt(WS->getCond(), T);
      O["body"] = dumpStmt(WS->getBody(), T);
    } else if (const auto *DoS = dyn_cast<DoStmt>(S)) {
      O["body"] = dumpStmt(DoS->getBody(), T);
      O["cond"] = dumpStmt(DoS->getCond(), T);
    } else if (const auto *FS = dyn_cast<ForStmt>(S)) {
      O["init"] = dumpStmt(FS->getInit(), T);
      O["cond"] = dumpStmt(FS->getCond(), T);
      O["inc"] = dumpStmt(FS->getInc(), T);
      O["body"] = dumpStmt(FS->getBody(), T);
    } else if (const auto *CO = dyn_cast<ConditionalOperator>(S)) {
      O["cond"] = dumpStmt(CO->getCond(), T);
      O["then"] = dumpStmt(CO->getTrueExpr(), T);
      O["else"] = dumpStmt(CO->getFalseExpr(), T);
    } else if (const auto *GS2 = dyn_cast<GotoStmt>(S)) {
      O["label"] = GS2->getLabel()->getNameAsString();
    } else if (const auto *LS = dyn_cast<LabelStmt>(S)) {
      O["label"] = LS->getDecl()->getNameAsString();
    } else if (const auto *SW = dyn_cast<SwitchStmt>(S)) {
      O["cond"] = dumpStmt(SW->getCond(), T);
      O["body"] = dumpStmt(SW->getBody(), T);
    }

    if (!ChildrenDone) {
      for (const Stmt *C : S->children())
        if (C)
          Ch.push_back(dumpStmt(C, T));
    }
    O["ch"] = std::move(Ch);
    T.Nodes[Id] = std::move(O);
    return Id;
  }

  // ---- functions -------------------------------------------------------------------
  json::Object dumpFunction(const FunctionDecl *FD) {
    json::Object F;
    F["name"] = FD->getNameAsString();
    F["did"] = declId(FD);
    F["file"] = fileOf(FD->getLocation());
    putLoc(F, FD->getLocation());
    F["static"] = FD->getStorageClass() == SC_Static;
    json::Object RT;
    putType(RT, FD->getReturnType());
    F["ret"] = std::move(RT);
    if (FD->getLocation().isMacroID())
      F["from_macro"] = Lexer::getImmediateMacroName(FD->getLocation(), SM, Ctx.getLangOpts()).str();
    else if (FD->getBeginLoc().isMacroID())
      F["from_macro"] = Lexer::getImmediateMacroName(FD->getBeginLoc(), SM, Ctx.getLangOpts()).str();

    json::Array Ps;
    for (const ParmVarDecl *P : FD->parameters()) {
      json::Object PO;
      PO["name"] = P->getNameAsString();
      PO["did"] = declId(P);
      putType(PO, P->getType());
      Ps.push_back(std::move(PO));
    }
    F["params"] = std::move(Ps);

    Tree T;
    const Stmt *Body = FD->getBody();
    F["body"] = dumpStmt(Body, T);

    // CFG
    CFG::BuildOptions BO;
    BO.setAllAlwaysAdd();
    BO.PruneTriviallyFalseEdges = false;
    BO.AddEHEdges = false;
    BO.AddInitializers = false;
    BO.AddImplicitDtors = false;
    BO.AddTemporaryDtors = false;
    std::unique_ptr<CFG> G = CFG::buildCFG(FD, const_cast<Stmt *>(Body), &Ctx, BO);
    if (G) {
      // synthetic DeclStmts (one per declarator) are dumped as extra nodes
      for (auto I = G->synthetic_stmt_begin(), E = G->synthetic_stmt_end(); I != E; ++I) {
        int Id = dumpStmt(I->first, T);
        auto OrigIt = T.Ids.find(I->second);
        if (OrigIt != T.Ids.end())
          if (auto *Obj = T.Nodes[Id].getAsObject())
            (*Obj)["synthetic_of"] = OrigIt->second;
      }
      json::Array Blocks;
      for (const CFGBlock *B : *G) {
        json::Object BOb;
        BOb["id"] = (int64_t)B->getBlockID();
        json::Array Elems;
        for (const CFGElement &El : *B) {
          if (auto CS = El.getAs<CFGStmt>()) {
            const Stmt *S = CS->getStmt();
            auto It = T.Ids.find(S);
            if (It == T.Ids.end())
              Elems.push_back(dumpStmt(S, T));
            else
              Elems.push_back(It->second);
          }
        }
        BOb["elems"] = std::move(Elems);
        if (const Stmt *TS = B->getTerminatorStmt()) {
          auto It = T.Ids.find(TS);
          BOb["term"] = It == T.Ids.end() ? -1 : It->second;
          BOb["termk"] = TS->getStmtClassName();
        }
        if (const Stmt *TC = B->getTerminatorCondition(false)) {
          auto It = T.Ids.find(TC);
          BOb["cond"] = It == T.Ids.end() ? -1 : It->second;
        }
        if (const Stmt *L = B->getLabel()) {
          auto It = T.Ids.find(L);
          BOb["label"] = It == T.Ids.end() ? -1 : It->second;
        }
        if (const Stmt *LT = B->getLoopTarget()) {
          auto It = T.Ids.find(LT);
          BOb["looptarget"] = It == T.Ids.end() ? -1 : It->second;
        }
        json::Array Succs;
        for (auto SI = B->succ_begin(); SI != B->succ_end(); ++SI) {
          const CFGBlock *SB = SI->getReachableBlock();
          if (!SB)
            SB = SI->getPossiblyUnreachableBlock();
          if (SB)
            Succs.push_back((int64_t)SB->getBlockID());
          else
            Succs.push_back(nullptr);
        }
        BOb["succs"] = std::move(Succs);
        Blocks.push_back(std::move(BOb));
      }
      json::Object CG;
      CG["entry"] = (int64_t)G->getEntry().getBlockID();
      CG["exit"] = (int64_t)G->getExit().getBlockID();
      CG["blocks"] = std::move(Blocks);
      F["cfg"] = std::move(CG);
    }
    F["nodes"] = std::move(T.Nodes);
    return F;
  }
};

class FactsConsumer : public ASTConsumer {
public:
  void HandleTranslationUnit(ASTContext &Ctx) override {
    Dumper D(Ctx);
    SourceManager &SM = Ctx.getSourceManager();
    json::Object Out;
    Out["main_file"] = SM.getFileEntryForID(SM.getMainFileID())->getName().str();
    json::Array Funcs, Decls, Records, Enums, Globals;

    for (const Decl *TL : Ctx.getTranslationUnitDecl()->decls()) {
      if (!D.inRoot(TL->getLocation()))
        continue;
      if (const auto *FD = dyn_cast<FunctionDecl>(TL)) {
        if (FD->doesThisDeclarationHaveABody())
          Funcs.push_back(D.dumpFunction(FD));
        else {
          json::Object O;
          O["name"] = FD->getNameAsString();
          O["file"] = D.fileOf(FD->getLocation());
          D.putLoc(O, FD->getLocation());
          json::Array Ps;
          for (const ParmVarDecl *P : FD->parameters()) {
            json::Object PO;
            PO["name"] = P->getNameAsString();
            D.putType(PO, P->getType());
            Ps.push_back(std::move(PO));
          }
          O["params"] = std::move(Ps);
          Decls.push_back(std::move(O));
        }
      } else if (const auto *RD = dyn_cast<RecordDecl>(TL)) {
        dumpRecord(D, RD, Records);
      } else if (const auto *TD = dyn_cast<TypedefDecl>(TL)) {
        if (const auto *RT = TD->getUnderlyingType()->getAs<RecordType>())
          if (D.inRoot(RT->getDecl()->getLocation()) && RT->getDecl()->isCompleteDefinition())
            dumpRecord(D, RT->getDecl(), Records, TD->getNameAsString());
        if (const auto *ET = TD->getUnderlyingType()->getAs<EnumType>())
          dumpEnum(D, ET->getDecl(), Enums, TD->getNameAsString());
      } else if (const auto *ED = dyn_cast<EnumDecl>(TL)) {
        dumpEnum(D, ED, Enums, "");
      } else if (const auto *VD = dyn_cast<VarDecl>(TL)) {
        Dumper::Tree T;
        json::Object V = D.varInfo(VD, T);
        V["file"] = D.fileOf(VD->getLocation());
        V["is_def"] = VD->isThisDeclarationADefinition() != VarDecl::DeclarationOnly;
        V["nodes"] = std::move(T.Nodes);
        Globals.push_back(std::move(V));
      }
    }
    Out["functions"] = std::move(Funcs);
    Out["declarations"] = std::move(Decls);
    Out["records"] = std::move(Records);
    Out["enums"] = std::move(Enums);
    Out["globals"] = std::move(Globals);
    llvm::outs() << json::Value(std::move(Out)) << "\n";
  }

  std::set<const RecordDecl *> SeenRec;
  std::set<const EnumDecl *> SeenEnum;

  void dumpRecord(Dumper &D, const RecordDecl *RD, json::Array &Records, std::string Alias = "") {
    if (!RD->isCompleteDefinition())
      return;
    bool First = SeenRec.insert(RD).second;
    if (!First && Alias.empty())
      return;
    json::Object R;
    R["name"] = RD->getNameAsString();
    if (!Alias.empty())
      R["alias"] = Alias;
    R["file"] = D.fileOf(RD->getLocation());
    D.putLoc(R, RD->getLocation());
    json::Array Fs;
    for (const FieldDecl *F : RD->fields()) {
      json::Object FO;
      FO["name"] = F->getNameAsString();
      D.putType(FO, F->getType());
      if (const auto *AT = D.Ctx.getAsConstantArrayType(F->getType())) {
        json::Object A;
        A["size"] = (int64_t)AT->getSize().getZExtValue();
        D.putType(A, AT->getElementType());
        if (auto TSI = F->getTypeSourceInfo()) {
          TypeLoc TL = TSI->getTypeLoc();
          if (auto ATL = TL.getAs<ConstantArrayTypeLoc>()) {
            if (Expr *SE = ATL.getSizeExpr()) {
              SourceLocation B = SE->getBeginLoc();
              if (B.isMacroID())
                A["size_mac"] = Lexer::getImmediateMacroName(B, D.SM, D.Ctx.getLangOpts()).str();
              CharSourceRange R = CharSourceRange::getTokenRange(D.SM.getExpansionRange(SE->getSourceRange()).getAsRange());
              A["size_src"] = Lexer::getSourceText(R, D.SM, D.Ctx.getLangOpts()).str();
            }
          }
        }
        FO["arr"] = std::move(A);
      }
      D.putLoc(FO, F->getLocation());
      Fs.push_back(std::move(FO));
    }
    R["fields"] = std::move(Fs);
    Records.push_back(std::move(R));
    // nested records (struct file_entry inside econf_file)
    for (const Decl *Sub : RD->decls())
      if (const auto *SR = dyn_cast<RecordDecl>(Sub))
        if (SR != RD && SR->isCompleteDefinition())
          dumpRecord(D, SR, Records);
  }

  void dumpEnum(Dumper &D, const EnumDecl *ED, json::Array &Enums, std::string Alias) {
    if (!ED->isCompleteDefinition())
      return;
    bool First = SeenEnum.insert(ED).second;
    if (!First && Alias.empty())
      return;
    json::Object E;
    E["name"] = ED->getNameAsString();
    if (!Alias.empty())
      E["alias"] = Alias;
    E["file"] = D.fileOf(ED->getLocation());
    D.putLoc(E, ED->getLocation());
    json::Array Es;
    for (const EnumConstantDecl *C : ED->enumerators()) {
      json::Object CO;
      CO["name"] = C->getNameAsString();
      CO["val"] = (int64_t)C->getInitVal().getExtValue();
      Es.push_back(std::move(CO));
    }
    E["enumerators"] = std::move(Es);
    Enums.push_back(std::move(E));
  }
};

class FactsAction : public ASTFrontendAction {
public:
  std::unique_ptr<ASTConsumer> CreateASTConsumer(CompilerInstance &, llvm::StringRef) override {
    return std::make_unique<FactsConsumer>();
  }
};

} // namespace

int main(int argc, const char **argv) {
  auto Parser = CommonOptionsParser::create(argc, argv, Cat);
  if (!Parser) {
    llvm::errs() << llvm::toString(Parser.takeError()) << "\n";
    return 2;
  }
  ClangTool Tool(Parser->getCompilations(), Parser->getSourcePathList());
  return Tool.run(newFrontendActionFactory<FactsAction>().get());
}
