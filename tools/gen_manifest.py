#!/usr/bin/env python3
"""Regenerates MANIFEST.json from the META blocks of rules/C??.py (single source of truth)."""
import importlib
import json
import os
import sys

V = os.path.dirname(os.path.dirname(os.path.abspath(__file__)))
sys.path.insert(0, V)
sys.dont_write_bytecode = True

NOT_APPLICABLE = {
    "C02": "The statement equates the parser's output with the written text for every file of a grammar: it quantifies "
           "over the values of unbounded strings flowing through a 300-line pointer-stepping loop. No dataflow, typestate "
           "or shape rule bounds those values; deciding it needs concrete/symbolic execution (a different technique "
           "family). Its two shape clauses (first-match lookup, section order of first appearance) are decided under C11.",
}
NOT_BUILT = "static rule set designed (DESIGN.md section 4) but not built yet; nothing is claimed until the check exists"

props = [json.loads(l)["id"] for l in open(os.path.join(V, "properties.jsonl"))]
checks, na, serves = [], [], []
for p in props:
    if p in NOT_APPLICABLE:
        na.append({"property_id": p, "reason": NOT_APPLICABLE[p]})
        continue
    if not os.path.exists(os.path.join(V, "rules", p + ".py")):
        na.append({"property_id": p, "reason": NOT_BUILT})
        continue
    m = importlib.import_module("rules." + p).META
    serves.append(p)
    checks.append({
        "property_id": p,
        "quick_cmd": "./check %s --tier quick" % p,
        "thorough_cmd": "./check %s --tier thorough" % p,
        "evidence_file": "evidence/%s.json" % p,
        "replay_cmd_template": "./check --replay {path}",
        "engine": "econf-facts + sa",
        "level_claimed": {"category": m["level"], "text": m.get("level_text", m.get("explanation", "")),
                          "design_ref": "DESIGN.md section 4, %s" % p},
        "level_note": m.get("level_note", "; ".join(m.get("trusted_base", []) + m.get("assumptions", []))),
        "technique": m.get("technique", "static analysis: custom rules over clang AST + CFG"),
    })
man = {
    "version": 1,
    "setup_cmd": "tools/build.sh",
    "hooks": {
        "guard": "LIBECONF_VERIF",
        "enable": "none needed: no rule uses instrumentation or annotations in /repo; checks analyse the unmodified sources",
        "baseline_off_cmd": "tools/baseline.sh",
        "source_commits": [],
        "add_only": True,
    },
    "engines": [
        {"name": "econf-facts", "path": "tools/extract/econf_facts.cc", "serves_properties": serves,
         "kind_free_text": "clang-14 libTooling front end: typed AST + clang CFG (setAllAlwaysAdd) of every unit of the real "
                           "build as JSON; judges nothing"},
        {"name": "sa", "path": "sa/", "serves_properties": serves,
         "kind_free_text": "python3 stdlib analysis library: CFG dominance/reachability/edge literals, call graph, effect "
                           "(mod) analysis, ownership typestate, nullable-field, loop-shape, fixed-buffer and table engines; "
                           "per-property rule sets in rules/"},
    ],
    "checks": checks,
    "not_applicable": na,
    "notes": "Technique family: static analysis only. Every check re-extracts facts from /repo's current working tree on "
             "each run (compile flags from the real build description). Exit 0 held / 1 VIOLATION / 2 analysis inconclusive "
             "(never on the unchanged tree). Known findings: known_findings.json. See DESIGN.md.",
}
with open(os.path.join(V, "MANIFEST.json"), "w") as f:
    json.dump(man, f, indent=1)
    f.write("\n")
print("MANIFEST.json: %d checks, %d not_applicable" % (len(checks), len(na)))
