#!/bin/bash
# tools/neutral_store.sh <scratch tree> <name> "<one-line note>": keep a hand-written behaviour-preserving variant as neutral/<name>/
# (the diff of the scratch tree against /repo's current tree; the tree is built and the 48 tests are run first).
set -u
T=$1; N=$2; NOTE=$3
V=$(cd "$(dirname "$0")/.." && pwd)
( cd "$T" && rm -rf _build && cmake -G Ninja -S . -B _build >/dev/null 2>&1 && cmake --build _build >/dev/null 2>&1 && cmake --build _build --target check >/dev/null 2>&1; ctest --test-dir _build -j8 2>&1 | grep -E "tests passed|tests failed" ) > /tmp/.nstore.$$ 
cat /tmp/.nstore.$$
grep -q "100% tests passed" /tmp/.nstore.$$ || { echo "tests do not pass"; rm -f /tmp/.nstore.$$; exit 1; }
rm -rf "$T/_build"
mkdir -p "$V/neutral/$N"
( cd /repo && git diff --no-index --no-prefix -- . "$T" 2>/dev/null ) >/dev/null
diff -ruN --exclude=_build --exclude=.git /repo "$T" | sed -e "s#^--- /repo/#--- a/#" -e "s#^+++ $T/#+++ b/#" -e "/^diff -ruN/d" > "$V/neutral/$N/patch.diff"
printf '# %s (hand-written)\n\n%s\n\nTests: %s\n' "$N" "$NOTE" "$(cat /tmp/.nstore.$$)" > "$V/neutral/$N/notes.md"
rm -f /tmp/.nstore.$$
echo stored neutral/$N; grep -c "^@@" "$V/neutral/$N/patch.diff"
