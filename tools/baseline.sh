#!/bin/sh
# baseline_off_cmd: the repository's pinned suite on a fresh build of /repo's current tree
# (no hooks exist, so "guard off" is simply the unmodified build).  Build dir outside /repo and /verif.
set -e
B=$(mktemp -d /tmp/econf-baseline-XXXXXX)
trap 'rm -rf "$B"' EXIT
cmake -G Ninja -S /repo -B "$B" >/dev/null
cmake --build "$B" >/dev/null
ctest --test-dir "$B" -j8 --timeout 900 "$@"
