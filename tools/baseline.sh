#!/bin/sh
# baseline_off_cmd: the repository's pinned suite on a build of /repo's current tree.  No hooks
# exist, so "guard off" is simply the normal build.  The shell tests of the suite locate their
# data relative to a build directory one level below the source root, so the pinned location
# /repo/_build (the harness's own, untracked) is (re)used.
set -e
B=/repo/_build
cmake -G Ninja -S /repo -B "$B" >/dev/null
# test programs are EXCLUDE_FROM_ALL: target `check` builds them (and runs ctest once, output discarded)
cmake --build "$B" --target check >/dev/null 2>&1 || true
ctest --test-dir "$B" -j8 --timeout 900 "$@"
