"""E-arr: stores into counted heap arrays stay inside the allocation.

For an allocation  P = malloc/calloc/realloc(... E * sizeof(T) ...)  of an array of pointers or structs and a store
P[I] = v  that this allocation reaches (no other allocation of P in between), the index is compared with the
element count E *symbolically*: both are linear forms  X + c  over one counter X, whose increments between the two
program points are followed along every acyclic CFG path.  Verdicts: 'ok' (I <= E-1 on every path), 'overflow'
(I >= E on some path, certainly), or no verdict (anything the evaluation does not understand - never an alarm).

A second rule covers growth in steps:  if (X % S == 0) P = realloc(P, (X + K) * sizeof(T));  followed by stores at
P[X + d]: between two reallocations X runs through S residues, so the largest index ever written is
X0 + (S-1) + dmax and must be below X0 + K.

Assumption: counters are non-negative."""
from .ast import render
from . import query, loops

ALLOCS = ("malloc", "calloc", "realloc", "reallocarray")


def _strip(n):
    return n.strip()


def lin(e):
    """(key, c, side) for  X + c : key = render of X (None for a constant), side = +1 when X is pre-incremented inside
    the expression (value already includes it), 'post' increments do not change the value used.  None when not linear."""
    e = _strip(e)
    cv = e.const_value()
    if cv is not None and not any(x.k == "UnaryOperator" and x.j.get("op") in ("++", "--") for x in e.walk()):
        return (None, cv)
    if e.k == "BinaryOperator" and e.j.get("op") in ("+", "-"):
        a, b = lin(e.children[0]), lin(e.children[1])
        if a is None or b is None:
            return None
        sign = 1 if e.j["op"] == "+" else -1
        if a[0] is not None and b[0] is None:
            return (a[0], a[1] + sign * b[1])
        if a[0] is None and b[0] is not None and sign == 1:
            return (b[0], a[1] + b[1])
        if a[0] is None and b[0] is None:
            return (None, a[1] + sign * b[1])
        return None
    if e.k == "UnaryOperator" and e.j.get("op") in ("++", "--"):
        inner = lin(e.children[0])
        if inner is None or inner[0] is None:
            return None
        # value relative to the variable's value AFTER the whole expression was evaluated
        d = 1 if e.j["op"] == "++" else -1
        if e.j.get("postfix"):
            return (inner[0], inner[1] - d)      # post: the old value is used, the variable is already one further
        return (inner[0], inner[1])              # pre: the new value is used
    if e.k in ("DeclRefExpr", "MemberExpr") or (e.k == "UnaryOperator" and e.j.get("op") == "*"):
        if (e.j.get("ct") or "").endswith("*"):
            return None
        return (render(e), 0)
    return None


def _elem_count(call):
    """element-count expression node and element type text of an array allocation, or None"""
    name = call.j.get("callee")
    a = call.call_args()

    def split(e):
        e = _strip(e)
        if e.k == "UnaryExprOrTypeTraitExpr":
            return None, e
        if e.k == "BinaryOperator" and e.j.get("op") == "*":
            l, r = _strip(e.children[0]), _strip(e.children[1])
            if r.k == "UnaryExprOrTypeTraitExpr":
                return l, r
            if l.k == "UnaryExprOrTypeTraitExpr":
                return r, l
        return False, None
    if name == "calloc" and len(a) == 2:
        s = _strip(a[1])
        if s.k == "UnaryExprOrTypeTraitExpr":
            return a[0], s
        s0 = _strip(a[0])
        if s0.k == "UnaryExprOrTypeTraitExpr":
            return a[1], s0
        return None
    size = a[0] if name == "malloc" else (a[1] if name == "realloc" and len(a) > 1 else None)
    if size is None:
        return None
    cnt, sz = split(size)
    if cnt is False:
        return None
    return cnt, sz


class Site:
    def __init__(self, fn, alloc, dest, store, verdict, why):
        self.fn, self.alloc, self.dest, self.store, self.verdict, self.why = fn, alloc, dest, store, verdict, why

    @property
    def key(self):
        return "%s:%s" % (self.fn.name, self.dest)


def _dest_of(fn, c):
    up = c.up()
    while up is not None and up.k in ("ParenExpr", "ImplicitCastExpr", "CStyleCastExpr"):
        up = up.up()
    if up is not None and up.k == "BinaryOperator" and up.j.get("op") == "=":
        return render(up.children[0]), up
    if up is not None and up.k == "DeclStmt":
        for d in up.j.get("decls", []):
            if d.get("init", -1) >= 0 and fn.nodes[d["init"]].strip() is c:
                return d["name"], up
    return None, None


def analyse_function(fn):
    out = []
    undecided = 0
    cfg = fn.cfg
    allocs = []
    for c in fn.calls(ALLOCS):
        ec = _elem_count(c)
        if ec is None:
            continue
        cnt, sz = ec
        if sz.const_value() in (None, 1):
            continue            # char buffers are E-buf's business
        dest, st = _dest_of(fn, c)
        if dest is None:
            continue
        names = {dest}
        # tmp = realloc(P, ...); P = tmp;
        for lhs, rhs, s2, kind in query.stores(fn):
            if kind == "=" and rhs is not None and render(rhs) == dest:
                names.add(render(lhs))
        if c.j.get("callee") == "realloc" and c.call_args():
            names.add(render(c.call_args()[0]))
        allocs.append((c, cnt, names, dest))
    if not allocs:
        return out, 0
    stores = []
    for lhs, rhs, st, kind in query.stores(fn):
        l = lhs.strip()
        if kind == "=" and l.k == "ArraySubscriptExpr":
            stores.append((render(l.children[0]), l.children[1], st))
    succ = {}
    for (b, i, s2) in cfg.edges():
        succ.setdefault(b, []).append(s2)
    for (c, cnt, names, dest) in allocs:
        cap = (None, 1) if cnt is None else lin(cnt)
        mine = [s for s in stores if s[0] in names]
        if not mine or cap is None:
            undecided += len(mine)
            continue
        other_alloc_blocks = set()
        for (c2, cnt2, names2, dest2) in allocs:
            if c2 is not c and names2 & names:
                other_alloc_blocks.add(c2.id)
        apos = cfg.index_of(c)
        if apos is None:
            continue
        stepwise = _stepwise_guard(fn, cfg, c, cap)
        for base, idx, st in mine:
            spos = cfg.index_of(st)
            if spos is None:
                continue
            res = _evaluate(fn, cfg, succ, apos, spos, cap, idx, st, other_alloc_blocks)
            if res is None:
                undecided += 1
                continue
            verdict, why = res
            out.append(Site(fn, c, dest, st, verdict, why))
        if stepwise is not None:
            out += _stepwise_sites(fn, cfg, succ, c, cap, stepwise, mine, dest)
    return out, undecided


def _apply_effects(n, off):
    """effects of one CFG element on the counters: off[key] = ('rel', d) | ('abs', c) | None (unknown)"""
    if n.k == "UnaryOperator" and n.j.get("op") in ("++", "--"):
        k = render(n.children[0])
        d = 1 if n.j["op"] == "++" else -1
        cur = off.get(k, ("rel", 0))
        if cur is not None:
            off[k] = (cur[0], cur[1] + d)
    elif n.k == "CompoundAssignOperator" and n.j.get("op") in ("+=", "-="):
        k = render(n.children[0])
        cv = n.children[1].const_value()
        cur = off.get(k, ("rel", 0))
        if cv is None or cur is None:
            off[k] = None
        else:
            off[k] = (cur[0], cur[1] + (cv if n.j["op"] == "+=" else -cv))
    elif n.k == "BinaryOperator" and n.j.get("op") == "=":
        k = render(n.children[0])
        l2 = lin(n.children[1])
        if l2 is not None and l2[0] is None:
            off[k] = ("abs", l2[1])
        elif l2 is not None and l2[0] == k:
            cur = off.get(k, ("rel", 0))
            off[k] = None if cur is None else (cur[0], cur[1] + l2[1])
        else:
            off[k] = None
    elif n.k == "CallExpr":
        # a call that receives &X may change X
        for a in n.call_args():
            a2 = a.strip()
            if a2.k == "UnaryOperator" and a2.j.get("op") == "&":
                off[render(a2.children[0])] = None


def _index_upper(fn, idx, st):
    """linear upper bound of the index expression at the store (through the enclosing counting loop)"""
    i2 = idx.strip()
    l = lin(i2)
    if l is None:
        return None
    if l[0] is not None and i2.k == "DeclRefExpr":
        for a in st.ancestors():
            if a.k == "ForStmt":
                sh = loops.for_shape(a)
                if sh.ok and sh.var == l[0] and sh.step > 0 and sh.cmp in ("<", "<="):
                    bn = a.child("cond").strip()
                    b = bn.children[1] if render(bn.children[0]) == sh.var else bn.children[0]
                    lb = lin(b)
                    if lb is None:
                        return None
                    return (lb[0], lb[1] - (1 if sh.cmp == "<" else 0))
    return l


def _evaluate(fn, cfg, succ, apos, spos, cap, idx, st, stop_blocks):
    """compare index and capacity along every acyclic path from the allocation to the store"""
    ab, ai = apos
    sb, si = spos
    up = _index_upper(fn, idx, st)
    if up is None:
        return None
    results = []
    budget = [400]

    def walk(b, start_i, off, seen):
        if budget[0] <= 0:
            results.append(None)
            return
        budget[0] -= 1
        elems = cfg.blocks[b].elems
        end = len(elems)
        for k in range(start_i, end):
            n = elems[k]
            if b == sb and k == si:
                results.append(dict(off))
                return
            if n.id in stop_blocks:
                return                  # another allocation of the same array takes over from here
            _apply_effects(n, off)
        for s2 in succ.get(b, []):
            if s2 in seen:
                continue
            walk(s2, 0, dict(off), seen | {s2})
    walk(ab, ai + 1, {}, {ab} if ab != sb or si > ai else set())
    if not results or any(r is None for r in results):
        return None
    worst = None
    for off in results:
        # capacity in terms of the counter's value right after the allocation
        ck, cc = cap
        ik, ic = up
        if ck is None and ik is None:
            v = ("ok" if ic <= cc - 1 else "overflow", "index %d, %d elements" % (ic, cc))
        elif ik is None:
            # constant index into X + c elements, X >= 0
            v = ("ok", "index %d, at least %d elements" % (ic, cc)) if ic <= cc - 1 else None
        elif ck is None:
            st_ = off.get(ik, ("rel", 0))
            if st_ is not None and st_[0] == "abs":
                val = st_[1] + ic
                v = ("ok" if val <= cc - 1 else "overflow", "index %d, %d elements" % (val, cc))
            else:
                v = None
        elif ck == ik:
            st_ = off.get(ik, ("rel", 0))
            if st_ is None or st_[0] != "rel":
                v = None
            else:
                d = st_[1] + ic
                v = ("ok" if d <= cc - 1 else "overflow", "index %s%+d against %s%+d elements (counter moved by %+d since the allocation)" % (ik, ic, ck, cc, st_[1]))
        else:
            v = None
        if v is None:
            return None
        if worst is None or v[0] == "overflow":
            worst = v
    return worst


def _stepwise_guard(fn, cfg, c, cap):
    """the allocation runs only when  X % S == 0 : returns S"""
    if cap[0] is None:
        return None
    ab = cfg.block_of(c)
    for lit in cfg.required_literals(ab, expand_locals=False):
        if lit.kind == "truth" and not lit.pol and lit.node.k == "BinaryOperator" and lit.node.j.get("op") == "%" and render(lit.node.children[0]) == cap[0]:
            s = lit.node.children[1].const_value()
            if s and s > 0:
                return s
        if lit.kind == "eq" and lit.pol:
            for x, y in ((lit.lhs, lit.rhs), (lit.rhs, lit.lhs)):
                x2 = x.strip()
                if x2.k == "BinaryOperator" and x2.j.get("op") == "%" and y.const_value() == 0 and render(x2.children[0]) == cap[0]:
                    s = x2.children[1].const_value()
                    if s and s > 0:
                        return s
    return None


def _stepwise_sites(fn, cfg, succ, c, cap, S, mine, dest):
    out = []
    ab = cfg.block_of(c)
    for base, idx, st in mine:
        spos = cfg.index_of(st)
        up = _index_upper(fn, idx, st)
        if up is None or up[0] != cap[0]:
            continue
        # paths from the function entry to the store that do NOT run the allocation
        results = []

        def walk(b, off, seen):
            elems = cfg.blocks[b].elems
            for k, n in enumerate(elems):
                if (b, k) == spos:
                    results.append(dict(off))
                    return
                _apply_effects(n, off)
            for s2 in succ.get(b, []):
                if s2 == ab or s2 in seen:
                    continue
                walk(s2, dict(off), seen | {s2})
        walk(cfg.entry, {}, {cfg.entry})
        for off in results:
            st_ = off.get(up[0], ("rel", 0))
            if st_ is None or st_[0] != "rel":
                continue
            d = st_[1] + up[1]
            if (S - 1) + d >= cap[1]:
                out.append(Site(fn, c, dest, st, "overflow",
                                "the array grows only when %s %% %d == 0, to %s%+d elements; until the next reallocation the counter takes %d values, so this "
                                "store reaches index m%+d while only m%+d elements exist (m = the counter at the last reallocation): one past the end "
                                "when the number of entries reaches a multiple of %d" % (cap[0], S, cap[0], cap[1], S, S - 1 + d, cap[1], S)))
            else:
                out.append(Site(fn, c, dest, st, "ok", "stepwise growth by %d with room for index %+d" % (S, d)))
    return out


def analyse(prog, util=False):
    tab = prog.util_functions if util else prog.functions
    sites, undecided = [], 0
    for f in tab.values():
        if f.file.endswith(".h"):
            continue
        try:
            s, u = analyse_function(f)
        except RecursionError:
            s, u = [], 1
        sites += s
        undecided += u
    return sites, undecided


# ---- symbolic straight-line evaluation over the values the counters had on entry --------------------------------------

def _shift(v, d):
    return None if v is None else (v[0], v[1] + d)


def symval(e, env):
    """value of the expression as (base, c): entry-value of access path `base` plus c (base None = constant); None = unknown.
    Evaluated AFTER the expression's own ++/-- side effects were applied to env (CFG element order)."""
    l = lin(e)
    if l is None:
        return None
    if l[0] is None:
        return (None, l[1])
    cur = env.get(l[0], (l[0], 0))
    return _shift(cur, l[1])


def sym_effects(n, env):
    if n.k == "UnaryOperator" and n.j.get("op") in ("++", "--"):
        k = render(n.children[0])
        env[k] = _shift(env.get(k, (k, 0)), 1 if n.j["op"] == "++" else -1)
    elif n.k == "CompoundAssignOperator" and n.j.get("op") in ("+=", "-="):
        k = render(n.children[0])
        cv = n.children[1].const_value()
        env[k] = None if cv is None else _shift(env.get(k, (k, 0)), cv if n.j["op"] == "+=" else -cv)
    elif n.k == "BinaryOperator" and n.j.get("op") == "=":
        env[render(n.children[0])] = symval(n.children[1], env)
    elif n.k == "DeclStmt":
        for d in n.j.get("decls", []):
            if d.get("init", -1) >= 0:
                env[d["name"]] = symval(n.fn.nodes[d["init"]], env)
    elif n.k == "CallExpr":
        for a in n.call_args():
            a2 = a.strip()
            if a2.k == "UnaryOperator" and a2.j.get("op") == "&":
                env[render(a2.children[0])] = None


def symbolic_snapshots(fn, nodes, limit=400):
    """{node id: [env, ...]} - the symbolic environment (over entry values) just before each of `nodes` is evaluated, for
    every acyclic path from the function entry; plus key 'exit': environments at the returns, tagged with the ids of the
    target nodes passed on the way."""
    cfg = fn.cfg
    pos = {}
    for n in nodes:
        p = cfg.index_of(n)
        if p is not None:
            pos[p] = n.id
    succ = {}
    for (b, i, s2) in cfg.edges():
        succ.setdefault(b, []).append(s2)
    out = {"exit": []}
    budget = [limit]

    def walk(b, env, seen, passed):
        if budget[0] <= 0:
            return
        budget[0] -= 1
        for k, n in enumerate(cfg.blocks[b].elems):
            if (b, k) in pos:
                out.setdefault(pos[(b, k)], []).append(dict(env))
                passed = passed | {pos[(b, k)]}
            sym_effects(n, env)
            if n.k == "ReturnStmt" and not n.j.get("inlined_return"):
                out["exit"].append((dict(env), passed))
                return
        for s2 in succ.get(b, []):
            if s2 not in seen:
                walk(s2, dict(env), seen | {s2}, passed)
    walk(cfg.entry, {}, {cfg.entry}, frozenset())
    return out
