"""E-mod: what may a function write (effect analysis), bottom-up over the call graph.

For function f and parameter index p:
  mod[f][p]      sites where f may store to / free / realloc memory reachable from p at
                 depth >= 1 (the parameter variable itself and by-value struct copies are
                 depth 0 and private), each with its call chain; plus the maximal depth
  ret[f]         set of parameter indices the returned pointer/struct may alias ('fresh' when none)
  outalias[f][j] parameters k such that f may store a pointer derived from k into memory
                 reachable from j
  glob_r/glob_w  objects with static storage read / written (transitively)

Derivation is flow-insensitive: a local is derived from p if anywhere assigned (or made to
contain) a pointer-carrying expression derived from p.  This over-approximates aliasing; it is
unsound only for pointers laundered through integers or globals (checked separately: no global
holds an object pointer)."""
from .ast import render
from .facts import Inconclusive
from . import query

ALLOCATORS = {"malloc", "calloc", "realloc", "strdup", "strndup", "__builtin_alloca", "alloca"}

# libc effect table: name -> dict(w=[(arg index, depth)], frees=[arg], ret=alias arg index | 'fresh' | None (non-pointer),
#                                 glob=short note when the routine touches process-wide state)
# depth 1: writes *arg; depth 2: writes **arg.  Variadic output routines list only fixed args.
LIBC = {
    "strlen": {}, "strcmp": {}, "strncmp": {}, "strcasecmp": {}, "strncasecmp": {}, "strchr": {"ret": 0}, "strrchr": {"ret": 0},
    "strstr": {"ret": 0}, "strpbrk": {"ret": 0}, "memchr": {"ret": 0}, "strspn": {}, "strcspn": {}, "memcmp": {},
    "strcpy": {"w": [(0, 1)], "ret": 0}, "strncpy": {"w": [(0, 1)], "ret": 0}, "stpcpy": {"w": [(0, 1)], "ret": 0},
    "strcat": {"w": [(0, 1)], "ret": 0}, "strncat": {"w": [(0, 1)], "ret": 0},
    "memcpy": {"w": [(0, 1)], "ret": 0}, "memmove": {"w": [(0, 1)], "ret": 0}, "memset": {"w": [(0, 1)], "ret": 0},
    "snprintf": {"w": [(0, 1)]}, "sprintf": {"w": [(0, 1)]}, "vsnprintf": {"w": [(0, 1)]},
    "asprintf": {"w": [(0, 1)], "out_fresh": [0]}, "vasprintf": {"w": [(0, 1)], "out_fresh": [0]},
    "strsep": {"w": [(0, 1), (0, 2)], "ret_deref": 0}, "strtok_r": {"w": [(0, 1), (2, 1)], "ret": 0},
    "getline": {"w": [(0, 1), (1, 1), (0, 2)], "out_fresh": [0]}, "getdelim": {"w": [(0, 1), (1, 1), (0, 2)], "out_fresh": [0]},
    "free": {"frees": [0]}, "realloc": {"frees": [0], "ret": "fresh"},
    "malloc": {"ret": "fresh"}, "calloc": {"ret": "fresh"}, "strdup": {"ret": "fresh"}, "strndup": {"ret": "fresh"},
    "__builtin_alloca": {"ret": "fresh"}, "alloca": {"ret": "fresh"},
    "fopen": {"ret": "fresh"}, "fclose": {"frees": [0]}, "fprintf": {"w": [(0, 1)]}, "printf": {}, "fputs": {"w": [(1, 1)]},
    "fputc": {"w": [(1, 1)]}, "fwrite": {"w": [(3, 1)]}, "puts": {}, "putchar": {},
    "lstat": {"w": [(1, 1)]}, "stat": {"w": [(1, 1)]}, "fstat": {"w": [(1, 1)]},
    "realpath": {"w": [(1, 1)], "ret": 1},
    "dirname": {"w": [(0, 1)], "ret": 0}, "__xpg_basename": {"w": [(0, 1)], "ret": 0}, "basename": {"ret": 0},
    "scandir": {"w": [(1, 1)], "out_fresh": [1]},
    "strtol": {"w": [(1, 1)], "out_alias": [(1, 0)]}, "strtoll": {"w": [(1, 1)], "out_alias": [(1, 0)]},
    "strtoul": {"w": [(1, 1)], "out_alias": [(1, 0)]}, "strtoull": {"w": [(1, 1)], "out_alias": [(1, 0)]},
    "strtof": {"w": [(1, 1)], "out_alias": [(1, 0)]}, "strtod": {"w": [(1, 1)], "out_alias": [(1, 0)]},
    "strtold": {"w": [(1, 1)], "out_alias": [(1, 0)]},
    "tolower": {}, "toupper": {}, "isspace": {}, "__ctype_b_loc": {"ret": "fresh"}, "__errno_location": {"ret": "fresh"},
    "__ctype_tolower_loc": {"ret": "fresh"}, "__ctype_toupper_loc": {"ret": "fresh"},
    "abs": {}, "exit": {}, "abort": {}, "getenv": {"ret": "fresh"}, "atoi": {}, "qsort": {"w": [(0, 1)]},
    "isinf": {}, "isnan": {}, "__builtin_isinf_sign": {}, "__builtin_huge_val": {}, "__builtin_huge_valf": {},
    "__builtin_inf": {}, "__builtin_inff": {}, "__builtin_expect": {}, "fabs": {}, "fabsf": {}, "__builtin_fabs": {},
    "getopt_long": {}, "getpwuid": {"ret": "fresh"}, "geteuid": {}, "getuid": {}, "setenv": {}, "unlink": {}, "mkstemp": {"w": [(0, 1)]},
    "waitpid": {"w": [(1, 1)]}, "fork": {}, "execlp": {}, "execvp": {}, "perror": {}, "access": {}, "mkdir": {}, "remove": {},
    "rename": {}, "system": {}, "strerror": {"ret": "fresh"}, "fgets": {"w": [(0, 1)], "ret": 0}, "fflush": {}, "sleep": {},
    "getgid": {}, "getegid": {}, "signal": {}, "umask": {}, "fileno": {}, "isatty": {}, "strtok": {"w": [(0, 1)], "ret": 0},
    "nftw": {}, "rmdir": {}, "chdir": {}, "getcwd": {"w": [(0, 1)], "ret": 0}, "wait": {"w": [(0, 1)]}, "_exit": {},
    # round 3: routines a well-meant change is likely to bring in
    "fdopen": {"ret": "fresh"}, "close": {}, "open": {}, "openat": {}, "read": {"w": [(1, 1)]}, "write": {}, "fchmod": {}, "chmod": {}, "fchown": {}, "chown": {},
    "fsync": {}, "fdatasync": {}, "ftruncate": {}, "lseek": {}, "mkostemp": {"w": [(0, 1)]}, "mkdtemp": {"w": [(0, 1)], "ret": 0},
    "faccessat": {}, "fstatat": {"w": [(2, 1)]}, "readlink": {"w": [(1, 1)]}, "link": {}, "symlink": {}, "unlinkat": {}, "renameat": {},
    "opendir": {"ret": "fresh"}, "closedir": {"frees": [0]}, "readdir": {"ret": "fresh"}, "dirfd": {},
    "fread": {"w": [(0, 1), (3, 1)]}, "fgetc": {"w": [(0, 1)]}, "getc": {"w": [(0, 1)]}, "ungetc": {"w": [(1, 1)]}, "fseek": {"w": [(0, 1)]}, "ftell": {},
    "rewind": {"w": [(0, 1)]}, "feof": {}, "ferror": {}, "clearerr": {"w": [(0, 1)]}, "vfprintf": {"w": [(0, 1)]}, "dprintf": {},
    "sscanf": {"w": [(i, 1) for i in range(2, 12)]}, "fscanf": {"w": [(0, 1)] + [(i, 1) for i in range(2, 12)]},
    "newlocale": {"ret": "fresh"}, "freelocale": {"frees": [0]}, "uselocale": {}, "duplocale": {"ret": "fresh"},
    "strtod_l": {"w": [(1, 1)], "out_alias": [(1, 0)]}, "strtof_l": {"w": [(1, 1)], "out_alias": [(1, 0)]}, "strtold_l": {"w": [(1, 1)], "out_alias": [(1, 0)]},
    "strtol_l": {"w": [(1, 1)], "out_alias": [(1, 0)]}, "strtoll_l": {"w": [(1, 1)], "out_alias": [(1, 0)]},
    "strtoul_l": {"w": [(1, 1)], "out_alias": [(1, 0)]}, "strtoull_l": {"w": [(1, 1)], "out_alias": [(1, 0)]},
    "strtoimax": {"w": [(1, 1)], "out_alias": [(1, 0)]}, "strtoumax": {"w": [(1, 1)], "out_alias": [(1, 0)]},
    "strnlen": {}, "strcoll": {}, "strverscmp": {}, "strcasestr": {"ret": 0}, "strchrnul": {"ret": 0}, "memrchr": {"ret": 0}, "rawmemchr": {"ret": 0},
    "mempcpy": {"w": [(0, 1)], "ret": 0}, "stpncpy": {"w": [(0, 1)], "ret": 0}, "memccpy": {"w": [(0, 1)], "ret": 0},
    "isalpha": {}, "isdigit": {}, "isalnum": {}, "isblank": {}, "iscntrl": {}, "isgraph": {}, "islower": {}, "isprint": {}, "ispunct": {}, "isupper": {}, "isxdigit": {},
    "bsearch": {"ret": 1}, "reallocarray": {"frees": [0], "ret": "fresh"}, "atol": {}, "atoll": {}, "atof": {}, "secure_getenv": {"ret": "fresh"},
    "getpid": {}, "time": {}, "clock_gettime": {"w": [(1, 1)]}, "pthread_mutex_lock": {"w": [(0, 1)]}, "pthread_mutex_unlock": {"w": [(0, 1)]},
    "pthread_once": {"w": [(0, 1)]}, "__builtin_mul_overflow": {"w": [(2, 1)]}, "__builtin_add_overflow": {"w": [(2, 1)]}, "__builtin_sub_overflow": {"w": [(2, 1)]},
    "__builtin_unreachable": {}, "__builtin_constant_p": {}, "__builtin_object_size": {},
    "__builtin_isnormal": {}, "__builtin_isfinite": {}, "__builtin_fpclassify": {}, "__builtin_signbit": {}, "__builtin_signbitf": {}, "__builtin_isnan": {},
    "__builtin_isinf": {}, "isnormal": {}, "isfinite": {}, "fpclassify": {}, "signbit": {}, "copysign": {}, "copysignf": {}, "ldexp": {}, "fmod": {},
    "floor": {}, "ceil": {}, "round": {}, "trunc": {}, "nextafter": {}, "nextafterf": {}, "fmin": {}, "fmax": {}, "sqrt": {}, "pow": {}, "__builtin_nan": {},
    "__builtin_nanf": {}, "__fpclassify": {}, "__isnan": {}, "__finite": {}, "__signbit": {}, "llabs": {}, "labs": {}, "frexp": {"w": [(1, 1)]},
}


def _carries_pointer(ctype, prog):
    if ctype is None:
        return False
    if ctype.endswith("*") or "(*" in ctype or ctype.endswith("]"):
        return True
    if ctype.startswith("struct ") or ctype.startswith("union "):
        return True      # conservatively: every record may contain pointers
    return False


def path_depth(n):
    """(root DeclRefExpr or None, depth) for an lvalue / pointer-valued expression:
    depth = (#dereferences) - (#address-of) along the access path from the root variable."""
    depth = 0
    cur = n.strip()
    while True:
        if cur.k == "MemberExpr":
            if cur.j.get("arrow"):
                depth += 1
            cur = cur.children[0].strip()
        elif cur.k == "ArraySubscriptExpr":
            base = cur.children[0].strip()
            if not (base.j.get("ct", "").endswith("]")):
                depth += 1
            cur = base
        elif cur.k == "UnaryOperator" and cur.j.get("op") == "*":
            depth += 1
            cur = cur.children[0].strip()
        elif cur.k == "UnaryOperator" and cur.j.get("op") == "&":
            depth -= 1
            cur = cur.children[0].strip()
        elif cur.k == "UnaryOperator" and cur.j.get("op") in ("++", "--"):
            cur = cur.children[0].strip()
        elif cur.k == "BinaryOperator" and cur.j.get("op") in ("+", "-"):
            a, b = cur.children[0].strip(), cur.children[1].strip()
            pa = a.j.get("ct", "").endswith("*") or a.j.get("ct", "").endswith("]")
            cur = a if pa else b
        elif cur.k == "BinaryOperator" and cur.j.get("op") == ",":
            cur = cur.children[1].strip()
        elif cur.k == "DeclRefExpr":
            return cur, depth
        else:
            return None, depth


class Site:
    __slots__ = ("fn", "node", "what", "chain")

    def __init__(self, fn, node, what, chain=None):
        self.fn = fn
        self.node = node
        self.what = what
        self.chain = chain or []

    def describe(self):
        steps = ["%s (%s)" % (c.fn.name, c.node.where) for c in self.chain]
        steps.append("%s: %s  [%s]" % (self.fn.name, self.what, self.node.where))
        return steps

    def key(self):
        return "%s:%s" % (self.fn.name, self.what)


class Summary:
    def __init__(self, fn):
        self.fn = fn
        n = len(fn.params) if fn is not None else 0
        self.mod = [[] for _ in range(n)]       # per param: [Site]
        self.moddepth = [0] * n
        self.ret = set()                          # param indices the return value may alias
        self.ret_fresh = True
        self.outalias = [set() for _ in range(n)]
        self.glob_r = {}
        self.glob_w = {}
        self.derived = {}                         # param idx -> set of local names


class ModAnalysis:
    def __init__(self, prog, util=False, indirect_targets=None):
        self.prog = prog
        self.tab = prog.util_functions if util else prog.functions
        self.sum = {}
        self.unknown_callees = {}
        self.indirect = indirect_targets or {}
        self._stack = []

    # ------------------------------------------------------------------------------------
    def summary(self, name):
        if name in self.sum:
            return self.sum[name]
        fn = self.tab.get(name)
        if fn is None:
            return None
        if name in self._stack:
            # recursion: optimistic empty summary for the cycle (library has none; noted)
            s = Summary(fn)
            return s
        self._stack.append(name)
        s = self._analyse(fn)
        self._stack.pop()
        self.sum[name] = s
        return s

    def callee_effects(self, call, fn):
        """[(callee name, summary or libc row)] for a call node (resolving the known indirect sites)."""
        name = call.j.get("callee")
        if name:
            if name in self.tab:
                return [(name, self.summary(name))]
            if name in LIBC:
                return [(name, LIBC[name])]
            self.unknown_callees.setdefault(name, []).append(call)
            return [(name, None)]
        # indirect call
        tgt = self.indirect.get(fn.name)
        if tgt is None:
            self.unknown_callees.setdefault("<indirect in %s>" % fn.name, []).append(call)
            return [("<indirect>", None)]
        if tgt == "opaque":
            return [("<opaque callback>", {})]
        return [(t, self.summary(t)) for t in tgt]

    # ------------------------------------------------------------------------------------
    def _analyse(self, fn):
        s = Summary(fn)
        prog = self.prog
        pnames = [p["name"] for p in fn.params]
        pidx = {n: i for i, n in enumerate(pnames)}
        carriers = [i for i, p in enumerate(fn.params) if _carries_pointer(p.get("ct"), prog)]
        # derived[i] = names (locals and the param itself) whose value may point into / contain pointers into param i's memory
        derived = {i: {pnames[i]} for i in carriers}
        assigns = []   # (lhs node or decl dict, rhs node)
        for lhs, rhs, st in fn.assignments():
            assigns.append((lhs, rhs))
        calls = [n for n in fn.walk() if n.k == "CallExpr"]

        def expr_sources(e, i):
            """Is pointer-carrying expression e derived from param i (given current derived sets)?"""
            e = e.strip()
            if not _carries_pointer(e.j.get("ct"), prog):
                return False
            if e.k == "ConditionalOperator":
                return expr_sources(e.child("then"), i) or expr_sources(e.child("else"), i)
            if e.k == "BinaryOperator" and e.j.get("op") == ",":
                return expr_sources(e.children[1], i)
            if e.k == "BinaryOperator" and e.j.get("op") == "=":
                return expr_sources(e.children[1], i)
            if e.k == "CallExpr":
                for name, eff in self.callee_effects(e, fn):
                    args = e.call_args()
                    if eff is None:
                        # unknown callee: assume the result may alias any pointer argument
                        if any(expr_sources(a, i) for a in args):
                            return True
                        continue
                    if isinstance(eff, Summary):
                        for k in eff.ret:
                            if k < len(args) and expr_sources(args[k], i):
                                return True
                    else:
                        r = eff.get("ret")
                        if isinstance(r, int) and r < len(args) and expr_sources(args[r], i):
                            return True
                        rd = eff.get("ret_deref")
                        if isinstance(rd, int) and rd < len(args):
                            a = args[rd].strip()
                            if a.k == "UnaryOperator" and a.j.get("op") == "&" and expr_sources(a.children[0], i):
                                return True
                return False
            if e.k in ("StringLiteral", "IntegerLiteral", "CharacterLiteral", "CompoundLiteralExpr", "InitListExpr"):
                return False
            root, depth = path_depth(e)
            if root is None:
                return False
            return root.j.get("name") in derived[i] and root.j.get("dk") in ("param", "local")

        changed = True
        rounds = 0
        while changed and rounds < 20:
            changed = False
            rounds += 1
            for lhs, rhs in assigns:
                for i in carriers:
                    if not expr_sources(rhs, i):
                        continue
                    if isinstance(lhs, dict):
                        tgt = lhs["name"]
                    else:
                        root, d = path_depth(lhs)
                        if root is None or root.j.get("dk") not in ("local", "param"):
                            continue
                        tgt = root.j["name"]
                    if tgt not in derived[i]:
                        derived[i].add(tgt)
                        changed = True
            # out-parameters of callees: &v receives something derived from another argument
            for c in calls:
                args = c.call_args()
                for name, eff in self.callee_effects(c, fn):
                    if eff is None:
                        continue
                    pairs = []
                    if isinstance(eff, Summary):
                        for j, ks in enumerate(eff.outalias):
                            for k in ks:
                                pairs.append((j, k))
                    else:
                        pairs = list(eff.get("out_alias", []))
                    for j, k in pairs:
                        if j >= len(args) or k >= len(args):
                            continue
                        root, d = path_depth(args[j])
                        if root is None or root.j.get("dk") not in ("local", "param"):
                            continue
                        for i in carriers:
                            if expr_sources(args[k], i) and root.j["name"] not in derived[i]:
                                derived[i].add(root.j["name"])
                                changed = True
        s.derived = derived

        def roots_params(node):
            """param indices i such that node's access path is rooted in something derived from i."""
            ns = node.strip()
            if ns.k in ("CallExpr", "ConditionalOperator") or (ns.k == "BinaryOperator" and ns.j.get("op") in ("=", ",")):
                # value produced by a call that may return (part of) its argument, e.g. rtrim(ltrim(s))
                return [i for i in carriers if expr_sources(ns, i)], 0
            root, d = path_depth(node)
            if root is None or root.j.get("dk") not in ("param", "local"):
                return [], d
            return [i for i in carriers if root.j["name"] in derived[i]], d

        # ---- direct stores -------------------------------------------------------------
        for lhs, rhs, st, kind in query.stores(fn):
            ps, d = roots_params(lhs)
            if d >= 1:
                for i in ps:
                    s.mod[i].append(Site(fn, st, "store to %s" % render(lhs)))
                    s.moddepth[i] = max(s.moddepth[i], d)
            # out-aliasing: pointer derived from k stored into memory reachable from j
            if rhs is not None and d >= 1:
                for j in ps:
                    for k in carriers:
                        if expr_sources(rhs, k):
                            s.outalias[j].add(k)
        # ---- calls -------------------------------------------------------------------------
        for c in calls:
            args = c.call_args()
            for name, eff in self.callee_effects(c, fn):
                if eff is None:
                    # unknown external: conservatively may write through every non-const pointer argument
                    for ai, a in enumerate(args):
                        ct = a.j.get("ct", "")
                        if ct.endswith("*") and not ct.startswith("const "):
                            ps, d = roots_params(a)
                            if d + 1 >= 1:
                                for i in ps:
                                    s.mod[i].append(Site(fn, c, "passed to unknown routine %s" % name))
                    continue
                if isinstance(eff, Summary):
                    for j, sites in enumerate(eff.mod):
                        if not sites or j >= len(args):
                            continue
                        ps, d = roots_params(args[j])
                        if d + eff.moddepth[j] >= 1:
                            for i in ps:
                                for site in sites[:4]:
                                    s.mod[i].append(Site(site.fn, site.node, site.what, [Site(fn, c, "call")] + site.chain))
                                s.moddepth[i] = max(s.moddepth[i], d + eff.moddepth[j])
                    for g, v in eff.glob_r.items():
                        s.glob_r.setdefault(g, v)
                    for g, v in eff.glob_w.items():
                        s.glob_w.setdefault(g, [Site(site.fn, site.node, site.what, [Site(fn, c, "call")] + site.chain) for site in v[:2]])
                else:
                    for (j, wd) in eff.get("w", []):
                        if j >= len(args):
                            continue
                        ps, d = roots_params(args[j])
                        if d + wd >= 1:
                            for i in ps:
                                s.mod[i].append(Site(fn, c, "%s writes through argument %d (%s)" % (name, j, render(args[j]))))
                                s.moddepth[i] = max(s.moddepth[i], d + wd)
                    for j in eff.get("frees", []):
                        if j >= len(args):
                            continue
                        ps, d = roots_params(args[j])
                        if d + 1 >= 1:
                            for i in ps:
                                s.mod[i].append(Site(fn, c, "%s releases %s" % (name, render(args[j]))))
                                s.moddepth[i] = max(s.moddepth[i], d + 1)
        # ---- return aliasing -------------------------------------------------------------
        for r in fn.returns():
            if not r.children:
                continue
            e = r.children[0]
            if not _carries_pointer(e.strip().j.get("ct"), prog):
                continue
            for i in carriers:
                if expr_sources(e, i):
                    s.ret.add(i)
        s.ret_fresh = not s.ret
        # ---- globals -----------------------------------------------------------------------
        for g, refs in query.global_refs(fn).items():
            for ref in refs:
                w = query.is_write_context(ref)
                if w is None:
                    s.glob_r.setdefault(g, ref)
                else:
                    if w.startswith("passed to"):
                        # pointer-to-const parameter: a read
                        outer = ref
                        while outer.parent is not None and outer.parent.k in ("ImplicitCastExpr", "ParenExpr"):
                            outer = outer.parent
                        if outer.j.get("ct", "").startswith("const ") and ref.j.get("ct", "").endswith("]"):
                            s.glob_r.setdefault(g, ref)
                            continue
                        if not ref.j.get("ct", "").endswith("]") and w.startswith("passed to"):
                            # scalar/pointer global passed by value: a read of the global
                            s.glob_r.setdefault(g, ref)
                            continue
                    s.glob_w.setdefault(g, []).append(Site(fn, ref, w))
        return s

    # ------------------------------------------------------------------------------------
    def out_fresh_params(self, gname, _depth=0):
        """indices of the parameters p of library function gname for which every `*p = X` stores fresh memory (or NULL)"""
        cache = self.__dict__.setdefault("_out_fresh_cache", {})
        if gname in cache:
            return cache[gname]
        cache[gname] = []
        g = self.prog.fn(gname)
        out = []
        if g.body is not None and _depth < 3:
            from . import query as _q
            for pi, q in enumerate(g.params):
                if not (q.get("ct") or "").endswith("**") and not (q.get("ct") or "").endswith("* *"):
                    continue
                sts = [(st, rhs) for lhs, rhs, st, kind in _q.stores(g) if kind == "=" and render(lhs) == "*" + q["name"] and rhs is not None]
                if sts and all(self.is_fresh_expr(g, rhs, at=st)[0] for st, rhs in sts):
                    out.append(pi)
        cache[gname] = out
        return out

    def is_fresh_expr(self, fn, e, _seen=None, at=None):
        """Fresh(e): result of an allocator / of a function returning fresh memory, NULL, or a
        local all of whose assignments are fresh.  Returns (bool, reason).  With `at` (the statement that uses e) only the
        definitions of a local that REACH that statement count (ret = lookup(); if (ret) return ret; ret = strdup(name); use(ret))."""
        _seen = _seen or set()
        if e.is_null_const():
            return True, "NULL"
        e = e.strip()
        if e.is_null_const():
            return True, "NULL"
        if e.k == "ConditionalOperator":
            a = self.is_fresh_expr(fn, e.child("then"), _seen)
            b = self.is_fresh_expr(fn, e.child("else"), _seen)
            return (a[0] and b[0]), "%s / %s" % (a[1], b[1])
        if e.k == "CallExpr":
            res = []
            for name, eff in self.callee_effects(e, fn):
                if eff is None:
                    return False, "unknown callee %s" % name
                if isinstance(eff, Summary):
                    if eff.ret:
                        return False, "%s may return its argument %s" % (name, sorted(eff.ret))
                    res.append("%s returns fresh memory" % name)
                else:
                    if eff.get("ret") == "fresh":
                        res.append("%s()" % name)
                    else:
                        return False, "%s does not allocate" % name
            return True, ", ".join(res)
        if e.k == "DeclRefExpr" and e.j.get("dk") == "local":
            name = e.j["name"]
            if name in _seen:
                return True, "cyclic"
            _seen = _seen | {name}
            defs = []
            for lhs, rhs, st in fn.assignments():
                if isinstance(lhs, dict):
                    if lhs["name"] == name:
                        defs.append(rhs)
                else:
                    l = lhs.strip()
                    if l.k == "DeclRefExpr" and l.j.get("name") == name:
                        defs.append(rhs)
            # asprintf(&v, ...) style out-parameters
            for c in fn.calls():
                for cname, eff in self.callee_effects(c, fn):
                    if isinstance(eff, Summary) and cname != fn.name and self.prog.has_fn(cname):
                        # a function of the library that hands fresh memory back through an out-parameter (`*list = result;`)
                        for j in self.out_fresh_params(cname):
                            args = c.call_args()
                            if j < len(args):
                                a = args[j].strip()
                                if a.k == "UnaryOperator" and a.j.get("op") == "&" and render(a.children[0]) == name:
                                    defs.append(None)
                    if isinstance(eff, dict):
                        for j in eff.get("out_fresh", []):
                            args = c.call_args()
                            if j < len(args):
                                a = args[j].strip()
                                if a.k == "UnaryOperator" and a.j.get("op") == "&" and render(a.children[0]) == name:
                                    defs.append(None)
            if at is not None:
                try:
                    from .dataflow import ReachingDefs
                    rd = getattr(fn, "_rd_fresh", None) or ReachingDefs(fn)
                    fn._rd_fresh = rd
                    reach = rd.reaching(name, at)
                    if reach and all(d.kind in ("init", "assign") and d.rhs is not None for d in reach):
                        defs = [d.rhs for d in reach]
                except Exception:
                    pass
            if not defs:
                return False, "local %s is never assigned" % name
            for d in defs:
                if d is None:
                    continue
                ok, why = self.is_fresh_expr(fn, d, _seen)
                if not ok:
                    return False, "%s = %s: %s" % (name, render(d), why)
            return True, "local %s only holds fresh memory" % name
        return False, "%s is not an allocation" % render(e)
