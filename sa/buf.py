"""E-buf: fixed-size character arrays and exact-fit allocations.

Part 1 (fixed arrays): every char array of constant size (stack, static, file scope) is an
instance; every write site (array decays into the destination of a copier, or element store)
is judged from the class of its sources and the relation of the copier's limit to the array.

Part 2 (exact-fit): every malloc/alloca whose size is a sum of strlen() terms plus a constant:
the strings later copied into it must be exactly those terms and the extra characters must fit
the constant."""
from .ast import render
from . import query
from .dataflow import ReachingDefs, origins

# copier table: dest arg, limit arg (None = unlimited), source args, format arg
COPIERS = {
    "strcpy": dict(dst=0, lim=None, src=[1]), "stpcpy": dict(dst=0, lim=None, src=[1]),
    "strcat": dict(dst=0, lim=None, src=[1]), "sprintf": dict(dst=0, lim=None, fmt=1),
    "vsprintf": dict(dst=0, lim=None, fmt=1),
    "strncpy": dict(dst=0, lim=2, src=[1]), "strncat": dict(dst=0, lim=2, src=[1]), "stpncpy": dict(dst=0, lim=2, src=[1]),
    "memcpy": dict(dst=0, lim=2, src=[1]), "memmove": dict(dst=0, lim=2, src=[1]),
    "snprintf": dict(dst=0, lim=1, fmt=2), "vsnprintf": dict(dst=0, lim=1, fmt=2),
    "fgets": dict(dst=0, lim=1, src=[]), "getcwd": dict(dst=0, lim=1, src=[]),
    "realpath": dict(dst=1, lim="PATH_MAX", src=[0]),
    "mkstemp": dict(dst=0, lim="inplace", src=[]),
    "gets": dict(dst=0, lim=None, src=["stdin"]),
}
SCANF = ("scanf", "fscanf", "sscanf", "__isoc99_scanf", "__isoc99_fscanf", "__isoc99_sscanf")
OS_LIMIT_MACROS = ("PATH_MAX", "FILENAME_MAX", "NAME_MAX", "MAXPATHLEN")

LITERAL, BOUNDED, EXEMPT, UNBOUNDED = 0, 1, 2, 3
CLASS_NAME = {LITERAL: "literal", BOUNDED: "bounded", EXEMPT: "environment/passwd (outside the property's field list)",
              UNBOUNDED: "unbounded"}


class ArrayVar:
    def __init__(self, did, name, size, size_mac, where, fn, static, glob):
        self.did, self.name, self.size, self.size_mac = did, name, size, size_mac
        self.where, self.fn, self.static, self.glob = where, fn, static, glob

    @property
    def label(self):
        return ("%s::%s" % (self.fn.name, self.name)) if self.fn is not None else self.name


def char_arrays(prog, util):
    """{did: ArrayVar} for all fixed char arrays of lib/ or util/."""
    out = {}
    ftab = prog.util_functions if util else prog.functions
    gtab = prog.util_globals if util else prog.globals
    for f in ftab.values():
        if f.file.endswith(".h"):
            continue
        for n in f.walk():
            if n.k == "DeclStmt" and not n.j.get("synthetic_of"):
                for d in n.j.get("decls", []):
                    a = d.get("arr")
                    if a and a.get("ct") in ("char", "unsigned char", "signed char"):
                        out[(f.unit, d["did"])] = ArrayVar(d["did"], d["name"], a["size"], a.get("size_mac"), n.where, f,
                                                            d.get("static", False), False)
    for g in gtab.values():
        a = g.arr
        if a and a.get("ct") in ("char", "unsigned char", "signed char"):
            out[(g.unit, g.j["did"])] = ArrayVar(g.j["did"], g.name, a["size"], a.get("size_mac"),
                                                 "%s:%s" % (g.unit, g.line), None, True, True)
    return out


def _local_defs(fn, name):
    out = []
    for lhs, rhs, st in fn.assignments():
        if isinstance(lhs, dict):
            if lhs["name"] == name:
                out.append(rhs)
        else:
            l = lhs.strip()
            if l.k == "DeclRefExpr" and l.j.get("name") == name:
                out.append(rhs)
    return out


def classify_source(e, fn, arrays, depth=0):
    """(class, detail) of a string source expression."""
    e = e.strip()
    if e.k == "StringLiteral":
        return LITERAL, len(e.j.get("str", ""))
    ct = e.j.get("ct", "")
    if not (ct.endswith("*") or ct.endswith("]")):
        return BOUNDED, "integer"
    if e.k == "DeclRefExpr":
        key = (fn.unit, e.j.get("did"))
        if key in arrays:
            return BOUNDED, arrays[key].size
        if e.j.get("dk") == "local" and depth < 4:
            defs = _local_defs(fn, e.j["name"])
            if defs:
                worst = (LITERAL, 0)
                for d in defs:
                    c = classify_source(d, fn, arrays, depth + 1)
                    if c[0] > worst[0]:
                        worst = c
                return worst
        return UNBOUNDED, render(e)
    if e.k == "ConditionalOperator":
        a = classify_source(e.child("then"), fn, arrays, depth + 1)
        b = classify_source(e.child("else"), fn, arrays, depth + 1)
        return a if a[0] >= b[0] else b
    if e.k == "CallExpr":
        c = e.j.get("callee")
        if c in ("getenv", "secure_getenv"):
            return EXEMPT, "getenv"
        if c in ("strrchr", "strchr", "strstr", "strpbrk") and e.call_args():
            return classify_source(e.call_args()[0], fn, arrays, depth + 1)
        return UNBOUNDED, render(e)
    if e.k == "BinaryOperator" and e.j.get("op") in ("+", "-"):
        a, b = e.children[0].strip(), e.children[1].strip()
        pa = a.j.get("ct", "").endswith("*") or a.j.get("ct", "").endswith("]")
        return classify_source(a if pa else b, fn, arrays, depth + 1)
    if e.k == "MemberExpr" and e.j.get("member", "").startswith("pw_"):
        return EXEMPT, "passwd entry"
    if e.is_null_const():
        return LITERAL, 0
    return UNBOUNDED, render(e)


def parse_format(fmt):
    """[(conversion char, width or None, precision or None|'*')] of a printf/scanf format."""
    out = []
    i = 0
    while i < len(fmt):
        if fmt[i] != "%":
            i += 1
            continue
        i += 1
        if i < len(fmt) and fmt[i] == "%":
            i += 1
            continue
        while i < len(fmt) and fmt[i] in "-+ #0'":
            i += 1
        width = ""
        while i < len(fmt) and (fmt[i].isdigit() or fmt[i] == "*"):
            width += fmt[i]
            i += 1
        prec = None
        if i < len(fmt) and fmt[i] == ".":
            i += 1
            prec = ""
            while i < len(fmt) and (fmt[i].isdigit() or fmt[i] == "*"):
                prec += fmt[i]
                i += 1
        while i < len(fmt) and fmt[i] in "hlLqjzt":
            i += 1
        if i < len(fmt):
            out.append((fmt[i], width or None, prec))
            i += 1
    return out


def dest_array(arg, fn, arrays):
    """(ArrayVar, offset node or None) when the destination argument is (an offset into) a fixed array."""
    e = arg.strip()
    off = None
    if e.k == "BinaryOperator" and e.j.get("op") == "+":
        a, b = e.children[0].strip(), e.children[1].strip()
        if a.j.get("ct", "").endswith("]") or a.j.get("ct", "").endswith("*"):
            e, off = a, b
        else:
            e, off = b, a
    if e.k == "UnaryOperator" and e.j.get("op") == "&":
        s = e.children[0].strip()
        if s.k == "ArraySubscriptExpr":
            e, off = s.children[0].strip(), s.children[1]
    if e.k == "DeclRefExpr":
        key = (fn.unit, e.j.get("did"))
        if key in arrays:
            return arrays[key], off
    return None, None


def limit_relation(lim, arr, off):
    """'tied' when the limit expression is provably <= the array's size (sizeof(arr), a constant
    <= size), else 'untied'."""
    if off is not None:
        return "untied"
    s = lim.strip()
    for n in s.walk():
        if n.k == "UnaryExprOrTypeTraitExpr":
            inner = n.children[0].strip() if n.children else None
            if inner is not None and inner.k == "DeclRefExpr" and inner.j.get("did") == arr.did:
                cv = lim.const_value()
                if cv is not None and cv <= arr.size:
                    return "tied"
    cv = lim.const_value()
    if cv is not None:
        return "tied" if cv <= arr.size else "untied"
    return "untied"


class WriteSite:
    def __init__(self, arr, fn, node, copier, verdict, why, src_class):
        self.arr, self.fn, self.node, self.copier = arr, fn, node, copier
        self.verdict, self.why, self.src_class = verdict, why, src_class
        self.src = ""
        if node.k == "CallExpr" and copier in COPIERS:
            a = node.call_args()
            idx = COPIERS[copier].get("src") or []
            parts = [render(a[i]) for i in idx if isinstance(i, int) and i < len(a)]
            if "fmt" in COPIERS[copier]:
                parts = [render(x) for x in a[COPIERS[copier]["fmt"] + 1:]]
            self.src = ",".join(parts)

    @property
    def key(self):
        return "%s:%s:%s" % (self.fn.name, self.arr.name, self.copier)

    @property
    def fullkey(self):
        return "%s:%s:%s:%s" % (self.fn.name, self.arr.name, self.copier, self.src)


def analyse_fixed_arrays(prog, util):
    """[WriteSite] for every write into a fixed char array.  verdict in
    ok | overflow | truncation | os-limit-truncation | exempt | unknown"""
    arrays = char_arrays(prog, util)
    ftab = prog.util_functions if util else prog.functions
    sites = []
    for f in ftab.values():
        if f.file.endswith(".h"):
            continue
        for c in f.calls():
            name = c.j.get("callee")
            args = c.call_args()
            if name in COPIERS:
                spec = COPIERS[name]
                if spec["dst"] >= len(args):
                    continue
                arr, off = dest_array(args[spec["dst"]], f, arrays)
                if arr is None:
                    continue
                srcs = []
                if "fmt" in spec:
                    fmt = args[spec["fmt"]].string_value() if spec["fmt"] < len(args) else None
                    if fmt is None:
                        # format held in a local initialised from a literal
                        cl = classify_source(args[spec["fmt"]], f, arrays)
                        fe = args[spec["fmt"]].strip()
                        lit = None
                        if fe.k == "DeclRefExpr":
                            defs = _local_defs(f, fe.j["name"])
                            if len(defs) == 1:
                                lit = defs[0].string_value()
                        fmt = lit
                    if fmt is None:
                        srcs.append((UNBOUNDED, "format is not a literal"))
                    else:
                        rest = args[spec["fmt"] + 1:]
                        ai = 0
                        for conv, width, prec in parse_format(fmt):
                            if width == "*":
                                ai += 1
                            if prec == "*":
                                ai += 1
                            if conv == "s":
                                if prec not in (None, "*", ""):
                                    srcs.append((BOUNDED, int(prec)))
                                elif ai < len(rest):
                                    srcs.append(classify_source(rest[ai], f, arrays))
                                else:
                                    srcs.append((UNBOUNDED, "missing argument"))
                            else:
                                srcs.append((BOUNDED, conv))
                            ai += 1
                        if not srcs:
                            srcs.append((LITERAL, len(fmt)))
                else:
                    for si in spec["src"]:
                        if isinstance(si, int) and si < len(args):
                            srcs.append(classify_source(args[si], f, arrays))
                        else:
                            srcs.append((UNBOUNDED, "external input"))
                    if not srcs:
                        srcs.append((UNBOUNDED, "external input"))
                worst = max(srcs, key=lambda x: x[0])
                lim = spec["lim"]
                if lim == "inplace":
                    sites.append(WriteSite(arr, f, c, name, "ok", "edits the template in place", worst[0]))
                    continue
                if lim == "PATH_MAX":
                    if arr.size_mac == "PATH_MAX" and off is None:
                        sites.append(WriteSite(arr, f, c, name, "ok", "realpath into a PATH_MAX buffer (its contract)", worst[0]))
                    else:
                        sites.append(WriteSite(arr, f, c, name, "overflow",
                                               "realpath() needs a PATH_MAX buffer, %s has %d bytes" % (arr.name, arr.size), worst[0]))
                    continue
                rel = "none" if lim is None else limit_relation(args[lim], arr, off)
                if worst[0] in (LITERAL, BOUNDED):
                    if rel == "tied":
                        sites.append(WriteSite(arr, f, c, name, "ok", "bounded sources, limit tied to the array", worst[0]))
                    else:
                        total = 0
                        ok = off is None
                        for cl, det in srcs:
                            if isinstance(det, int):
                                total += det
                            else:
                                total += 24     # an integer conversion
                        if ok and total < arr.size:
                            sites.append(WriteSite(arr, f, c, name, "ok", "bounded sources (<= %d bytes) fit %d" % (total, arr.size), worst[0]))
                        else:
                            sites.append(WriteSite(arr, f, c, name, "overflow",
                                                   "bounded sources of up to %d bytes into %d bytes without a tied limit" % (total, arr.size), worst[0]))
                    continue
                if worst[0] == EXEMPT:
                    sites.append(WriteSite(arr, f, c, name, "exempt", "source is %s" % worst[1], worst[0]))
                    continue
                # unbounded source
                if rel == "tied":
                    if arr.size_mac in OS_LIMIT_MACROS:
                        sites.append(WriteSite(arr, f, c, name, "os-limit-truncation",
                                               "unbounded source %s cut at %s: names are only claimed up to the OS limits" % (worst[1], arr.size_mac), worst[0]))
                    else:
                        sites.append(WriteSite(arr, f, c, name, "truncation",
                                               "unbounded source %s is cut at %d bytes (%s[%s])" % (worst[1], arr.size, arr.name, arr.size_mac or arr.size), worst[0]))
                else:
                    guard = length_guard(f, c, args, spec, arr)
                    if guard:
                        sites.append(WriteSite(arr, f, c, name, "ok", "dominated by length guard %s" % guard, worst[0]))
                    else:
                        sites.append(WriteSite(arr, f, c, name, "overflow",
                                               "unbounded source %s copied by %s with %s" % (
                                                   worst[1], name, "no limit" if rel == "none" else "a limit not tied to the array's size (%s)" % render(args[lim])),
                                               worst[0]))
            elif name in SCANF:
                fi = 0 if name in ("scanf", "__isoc99_scanf") else 1
                fmt = args[fi].string_value() if fi < len(args) else None
                rest = args[fi + 1:]
                if fmt is None:
                    continue
                for k, (conv, width, prec) in enumerate(parse_format(fmt)):
                    if conv in ("s", "[") and k < len(rest):
                        arr, off = dest_array(rest[k], f, arrays)
                        if arr is None:
                            continue
                        if width and width.isdigit() and int(width) < arr.size and off is None:
                            sites.append(WriteSite(arr, f, c, name, "ok", "field width %s < %d" % (width, arr.size), UNBOUNDED))
                        else:
                            sites.append(WriteSite(arr, f, c, name, "overflow", "%%%s without a fitting field width" % conv, UNBOUNDED))
        # element stores
        for lhs, rhs, st, kind in query.stores(f):
            l = lhs.strip()
            if l.k != "ArraySubscriptExpr":
                continue
            base = l.children[0].strip()
            if base.k != "DeclRefExpr":
                continue
            key = (f.unit, base.j.get("did"))
            if key not in arrays:
                continue
            arr = arrays[key]
            idx = l.children[1]
            cv = idx.const_value()
            if cv is not None:
                if 0 <= cv < arr.size:
                    sites.append(WriteSite(arr, f, st, "element-store", "ok", "constant index %d < %d" % (cv, arr.size), LITERAL))
                else:
                    sites.append(WriteSite(arr, f, st, "element-store", "overflow", "constant index %d outside %d" % (cv, arr.size), LITERAL))
            else:
                if index_guard(f, st, idx, arr):
                    sites.append(WriteSite(arr, f, st, "element-store", "ok", "index guarded against the size", BOUNDED))
                else:
                    sites.append(WriteSite(arr, f, st, "element-store", "overflow",
                                           "index %s is not compared with the array's size" % render(idx), UNBOUNDED))
    return arrays, sites


def length_guard(fn, call, args, spec, arr):
    """A dominating comparison that mentions strlen(<source>) and the array's size (or its
    size macro value) and leaves the function on the bad side."""
    cfg = fn.cfg
    tb = cfg.block_of(call)
    srcs = [render(args[i]) for i in spec.get("src", []) if isinstance(i, int) and i < len(args)]
    for (b, i, s) in cfg.edges():
        lit = cfg.edge_lit(b, i)
        if lit is None or lit.kind != "lt":
            continue
        txt = lit.atom
        if "strlen" not in txt:
            continue
        if not any(n.const_value() == arr.size for n in lit.node.walk() if n.is_expr()):
            continue
        # the edge on which the length is too large must not reach the call
        bad_edge = (b, i)
        other = (b, 1 - i)
        if tb not in cfg.reachable(cfg.blocks[b].succs[i]) or tb not in cfg.reachable(cfg.blocks[b].succs[1 - i]):
            if cfg.dominates(b, tb):
                return render(lit.node)
    return None


def index_guard(fn, st, idx, arr):
    cfg = fn.cfg
    tb = cfg.block_of(st)
    it = render(idx)
    for (b, i, s) in cfg.edges():
        lit = cfg.edge_lit(b, i)
        if lit is None or lit.kind != "lt":
            continue
        if render(lit.lhs) == it and (lit.rhs.const_value() is not None and lit.rhs.const_value() <= arr.size) and lit.pol:
            if cfg.dominates(s, tb) or s == tb:
                return True
    return False


# ---- Part 2: exact-fit allocations --------------------------------------------------------------

def _norm(e):
    """render with postfix/prefix ++/-- removed (config_dirs[i++] -> config_dirs[i])"""
    return render(e).replace("++", "").replace("--", "")


def _linear(e, fn, depth=0):
    """size expression -> (list of strlen operands, constant) or None when not of that shape"""
    e = e.strip()
    cv = e.const_value()
    if cv is not None and e.k != "DeclRefExpr":
        return [], cv
    if e.k == "BinaryOperator" and e.j.get("op") == "+":
        a = _linear(e.children[0], fn, depth)
        b = _linear(e.children[1], fn, depth)
        if a is None or b is None:
            return None
        return a[0] + b[0], a[1] + b[1]
    if e.k == "BinaryOperator" and e.j.get("op") == "*":
        a, b = e.children[0].strip(), e.children[1].strip()
        # n * sizeof(char)
        for x, y in ((a, b), (b, a)):
            if y.k == "UnaryExprOrTypeTraitExpr" and y.const_value() == 1:
                return _linear(x, fn, depth)
        return None
    if e.k == "CallExpr" and e.j.get("callee") == "strlen":
        return [_norm(e.call_args()[0])], 0
    if e.k == "DeclRefExpr" and e.j.get("dk") == "local" and depth < 3:
        defs = _local_defs(fn, e.j["name"])
        if len(defs) == 1:
            return _linear(defs[0], fn, depth + 1)
        return None
    if cv is not None:
        return [], cv
    return None


class FitSite:
    def __init__(self, fn, alloc, var, terms, const, verdict, why):
        self.fn, self.alloc, self.var, self.terms, self.const = fn, alloc, var, terms, const
        self.verdict, self.why = verdict, why

    @property
    def key(self):
        return "%s:%s" % (self.fn.name, self.var)


def analyse_exact_fit(prog, util=False):
    ftab = prog.util_functions if util else prog.functions
    out = []
    for f in ftab.values():
        if f.file.endswith(".h"):
            continue
        for c in f.calls(("malloc", "alloca", "__builtin_alloca")):
            size = c.call_args()[0]
            lin = _linear(size, f)
            if lin is None or not lin[0]:
                continue        # not a strlen-sized string buffer
            terms, const = lin
            # destination variable
            up = c.up()
            var = None
            if up is not None and up.k == "BinaryOperator" and up.j.get("op") == "=":
                l = up.children[0].strip()
                if l.k == "DeclRefExpr":
                    var = l.j["name"]
            elif up is not None and up.k == "DeclStmt":
                for d in up.j.get("decls", []):
                    if d.get("init", -1) >= 0 and f.nodes[d["init"]].strip() is c:
                        var = d["name"]
            if var is None:
                out.append(FitSite(f, c, "?", terms, const, "unknown", "allocation result not bound to a variable"))
                continue
            rd = _rd(f)
            needed_terms = []
            extra = 0
            explicit_nul = False
            problems = []
            limited_ok = False

            def charged(ptr_expr, at):
                o = origins(rd, ptr_expr, at)
                if c not in o:
                    return False
                if len(o) > 1:
                    problems.append("pointer %s may also stem from %d other source(s) at %s" % (render(ptr_expr), len(o) - 1, at.where))
                return True

            for n in f.walk():
                if n.k == "CallExpr" and n is not c:
                    cn = n.j.get("callee")
                    a = n.call_args()
                    if cn in ("stpcpy", "strcpy", "strcat") and a:
                        if charged(a[0], n):
                            s2 = a[1].strip()
                            if s2.k == "StringLiteral":
                                extra += len(s2.j.get("str", ""))
                            else:
                                needed_terms.append(_norm(a[1]))
                    elif cn in ("snprintf",) and a:
                        if charged(a[0], n):
                            l2 = _linear(a[1], f)
                            if l2 is not None and sorted(l2[0]) == sorted(terms) and l2[1] <= const:
                                limited_ok = True
                            else:
                                problems.append("snprintf limit %s is not the allocation size" % render(a[1]))
                    elif cn in ("sprintf", "strncpy", "memcpy", "strncat", "vsprintf", "gets") and a:
                        if charged(a[0], n):
                            problems.append("%s into the buffer: idiom not understood" % cn)
            for lhs, rhs, st, kind in query.stores(f):
                l = lhs.strip()
                if l.j.get("ct") not in ("char",):
                    continue
                if l.k == "UnaryOperator" and l.j.get("op") == "*":
                    ptr = l.children[0]
                elif l.k == "ArraySubscriptExpr":
                    ptr = l.children[0]
                else:
                    continue
                if charged(ptr, st):
                    extra += 1
                    if rhs is not None and rhs.const_value() == 0:
                        explicit_nul = True
            if limited_ok and not needed_terms and not problems:
                out.append(FitSite(f, c, var, terms, const, "ok", "filled by snprintf limited to the allocation size"))
                continue
            need_const = extra + (0 if explicit_nul else 1)
            avail = list(terms)
            missing = []
            for t in needed_terms:
                if t in avail:
                    avail.remove(t)
                else:
                    missing.append(t)
            if problems:
                out.append(FitSite(f, c, var, terms, const, "unknown", "; ".join(problems)))
            elif missing:
                out.append(FitSite(f, c, var, terms, const, "overflow",
                                   "copies %s into a buffer sized for strlen of %s + %d" % (missing, terms, const)))
            elif need_const > const:
                out.append(FitSite(f, c, var, terms, const, "overflow",
                                   "needs %d extra bytes (separators, literals, NUL) but the size only adds %d" % (need_const, const)))
            elif not needed_terms and not extra:
                out.append(FitSite(f, c, var, terms, const, "unknown", "no copy into the buffer recognised"))
            else:
                out.append(FitSite(f, c, var, terms, const, "ok",
                                   "copies %s (+%d bytes) into strlen(%s)+%d" % (needed_terms, need_const, "+".join(terms), const)))
    return out


_RD = {}


def _rd(f):
    k = id(f)
    if k not in _RD:
        _RD[k] = ReachingDefs(f)
    return _RD[k]


def _in_loop_with(f, n, c):
    return False
