"""E-buf: fixed-size character arrays and exact-fit allocations.

Part 1 (fixed arrays): every char array of constant size (stack, static, file scope) is an
instance; every write site (array decays into the destination of a copier, or element store)
is judged from the class of its sources and the relation of the copier's limit to the array.

Part 2 (exact-fit): every malloc/alloca whose size is a sum of strlen() terms plus a constant:
the strings later copied into it must be exactly those terms and the extra characters must fit
the constant."""
from .ast import render
from . import query
from .dataflow import ReachingDefs, origins

# copier table: dest arg, limit arg (None = unlimited), source args, format arg
COPIERS = {
    "strcpy": dict(dst=0, lim=None, src=[1]), "stpcpy": dict(dst=0, lim=None, src=[1]),
    "strcat": dict(dst=0, lim=None, src=[1]), "sprintf": dict(dst=0, lim=None, fmt=1),
    "vsprintf": dict(dst=0, lim=None, fmt=1),
    "strncpy": dict(dst=0, lim=2, src=[1]), "strncat": dict(dst=0, lim=2, src=[1]), "stpncpy": dict(dst=0, lim=2, src=[1]),
    "memcpy": dict(dst=0, lim=2, src=[1]), "memmove": dict(dst=0, lim=2, src=[1]),
    "snprintf": dict(dst=0, lim=1, fmt=2), "vsnprintf": dict(dst=0, lim=1, fmt=2),
    "fgets": dict(dst=0, lim=1, src=[]), "getcwd": dict(dst=0, lim=1, src=[]),
    "realpath": dict(dst=1, lim="PATH_MAX", src=[0]),
    "mkstemp": dict(dst=0, lim="inplace", src=[]),
    "gets": dict(dst=0, lim=None, src=["stdin"]),
}
SCANF = ("scanf", "fscanf", "sscanf", "__isoc99_scanf", "__isoc99_fscanf", "__isoc99_sscanf")
OS_LIMIT_MACROS = ("PATH_MAX", "FILENAME_MAX", "NAME_MAX", "MAXPATHLEN")

LITERAL, BOUNDED, EXEMPT, UNBOUNDED = 0, 1, 2, 3
CLASS_NAME = {LITERAL: "literal", BOUNDED: "bounded", EXEMPT: "environment/passwd (outside the property's field list)",
              UNBOUNDED: "unbounded"}


class ArrayVar:
    def __init__(self, did, name, size, size_mac, where, fn, static, glob):
        self.did, self.name, self.size, self.size_mac = did, name, size, size_mac
        self.where, self.fn, self.static, self.glob = where, fn, static, glob

    @property
    def label(self):
        return ("%s::%s" % (self.fn.name, self.name)) if self.fn is not None else self.name


def char_arrays(prog, util):
    """{did: ArrayVar} for all fixed char arrays of lib/ or util/."""
    out = {}
    ftab = prog.util_functions if util else prog.functions
    gtab = prog.util_globals if util else prog.globals
    for f in ftab.values():
        if f.file.endswith(".h"):
            continue
        for n in f.walk():
            if n.k == "DeclStmt" and not n.j.get("synthetic_of"):
                for d in n.j.get("decls", []):
                    a = d.get("arr")
                    if a and a.get("ct") in ("char", "unsigned char", "signed char"):
                        out[(f.unit, d["did"])] = ArrayVar(d["did"], d["name"], a["size"], a.get("size_mac"), n.where, f,
                                                            d.get("static", False), False)
    for g in gtab.values():
        a = g.arr
        if a and a.get("ct") in ("char", "unsigned char", "signed char"):
            out[(g.unit, g.j["did"])] = ArrayVar(g.j["did"], g.name, a["size"], a.get("size_mac"),
                                                 "%s:%s" % (g.unit, g.line), None, True, True)
    return out


def _local_defs(fn, name):
    out = []
    for lhs, rhs, st in fn.assignments():
        if isinstance(lhs, dict):
            if lhs["name"] == name:
                out.append(rhs)
        else:
            l = lhs.strip()
            if l.k == "DeclRefExpr" and l.j.get("name") == name:
                out.append(rhs)
    return out


def list_tainted(fn):
    """names of locals whose text stems from a parameter that carries a LIST (rules/tables/buffers.json "lists"), not a name"""
    import json as _json, os as _os, re as _re
    try:
        with open(_os.path.join(_os.path.dirname(_os.path.dirname(_os.path.abspath(__file__))), "rules", "tables", "buffers.json")) as fh:
            rows = _json.load(fh).get("lists", [])
    except OSError:
        rows = []
    seeds = set(r["param"] for r in rows if r.get("function") in (fn.name, getattr(fn, "real_name", None)))
    if not seeds:
        return set()
    tainted = set(seeds)
    changed = True
    assigns = []
    for lhs, rhs, st in fn.assignments():
        if rhs is not None:
            assigns.append((lhs["name"] if isinstance(lhs, dict) else render(lhs), render(rhs)))
    # sscanf(src, fmt, dst...) carries the taint into its destinations
    for c in fn.calls(("sscanf", "__isoc99_sscanf")):
        a = c.call_args()
        for d in a[2:]:
            assigns.append((render(d).lstrip("&"), render(a[0])))
    while changed:
        changed = False
        for l, r in assigns:
            if l not in tainted and any(_re.search(r"(?<![A-Za-z0-9_])%s(?![A-Za-z0-9_])" % _re.escape(t), r) for t in tainted):
                tainted.add(l)
                changed = True
    return tainted


def classify_source(e, fn, arrays, depth=0):
    """(class, detail) of a string source expression."""
    e = e.strip()
    if e.k == "StringLiteral":
        return LITERAL, len(e.j.get("str", ""))
    ct = e.j.get("ct", "")
    if not (ct.endswith("*") or ct.endswith("]")):
        return BOUNDED, "integer"
    if e.k == "DeclRefExpr":
        key = (fn.unit, e.j.get("did"))
        if key in arrays:
            return BOUNDED, arrays[key].size - 1
        if e.j.get("dk") == "local" and depth < 4:
            defs = _local_defs(fn, e.j["name"])
            if defs:
                worst = (LITERAL, 0)
                for d in defs:
                    c = classify_source(d, fn, arrays, depth + 1)
                    if c[0] > worst[0]:
                        worst = c
                return worst
        return UNBOUNDED, render(e)
    if e.k == "ConditionalOperator":
        a = classify_source(e.child("then"), fn, arrays, depth + 1)
        b = classify_source(e.child("else"), fn, arrays, depth + 1)
        return a if a[0] >= b[0] else b
    if e.k == "CallExpr":
        c = e.j.get("callee")
        if c in ("getenv", "secure_getenv"):
            return EXEMPT, "getenv"
        if c in ("strrchr", "strchr", "strstr", "strpbrk") and e.call_args():
            return classify_source(e.call_args()[0], fn, arrays, depth + 1)
        return UNBOUNDED, render(e)
    if e.k == "BinaryOperator" and e.j.get("op") in ("+", "-"):
        a, b = e.children[0].strip(), e.children[1].strip()
        pa = a.j.get("ct", "").endswith("*") or a.j.get("ct", "").endswith("]")
        return classify_source(a if pa else b, fn, arrays, depth + 1)
    if e.k == "MemberExpr" and e.j.get("member", "").startswith("pw_"):
        return EXEMPT, "passwd entry"
    if e.is_null_const():
        return LITERAL, 0
    return UNBOUNDED, render(e)


def parse_format(fmt):
    """[(conversion char, width or None, precision or None|'*')] of a printf/scanf format."""
    out = []
    i = 0
    while i < len(fmt):
        if fmt[i] != "%":
            i += 1
            continue
        i += 1
        if i < len(fmt) and fmt[i] == "%":
            i += 1
            continue
        while i < len(fmt) and fmt[i] in "-+ #0'":
            i += 1
        width = ""
        while i < len(fmt) and (fmt[i].isdigit() or fmt[i] == "*"):
            width += fmt[i]
            i += 1
        prec = None
        if i < len(fmt) and fmt[i] == ".":
            i += 1
            prec = ""
            while i < len(fmt) and (fmt[i].isdigit() or fmt[i] == "*"):
                prec += fmt[i]
                i += 1
        while i < len(fmt) and fmt[i] in "hlLqjzt":
            i += 1
        if i < len(fmt):
            out.append((fmt[i], width or None, prec))
            i += 1
    return out


def conv_max_width(conv, length, prec_val, argtype):
    """conservative maximal number of characters a numeric printf conversion can produce"""
    if conv in "di":
        return 20 if ("l" in length or "j" in length or "z" in length or (argtype or "").startswith("long")) else 11
    if conv in "u":
        return 20 if ("l" in length or "j" in length or "z" in length or "long" in (argtype or "")) else 10
    if conv in "xX":
        return 16 if ("l" in length or "long" in (argtype or "")) else 8
    if conv in "o":
        return 22 if ("l" in length or "long" in (argtype or "")) else 11
    if conv == "c":
        return 1
    if conv in "gGeE":
        p = 6 if prec_val is None else max(1, prec_val)
        if conv in "eE":
            p += 1
        return p + (8 if "L" in length else 7)      # sign, point, 'e', exponent sign, 3 (4) exponent digits
    if conv in "fF":
        p = 6 if prec_val is None else prec_val
        return 312 + p
    if conv in "aA":
        return 32
    if conv == "p":
        return 18
    return 24


def format_literal_len(fmt):
    n = 0
    i = 0
    while i < len(fmt):
        if fmt[i] != "%":
            n += 1
            i += 1
            continue
        i += 1
        if i < len(fmt) and fmt[i] == "%":
            n += 1
            i += 1
            continue
        while i < len(fmt) and fmt[i] in "-+ #0'.*0123456789hlLqjzt":
            i += 1
        i += 1
    return n


def dest_array(arg, fn, arrays):
    """(ArrayVar, offset node or None) when the destination argument is (an offset into) a fixed array."""
    e = arg.strip()
    off = None
    if e.k == "BinaryOperator" and e.j.get("op") == "+":
        a, b = e.children[0].strip(), e.children[1].strip()
        if a.j.get("ct", "").endswith("]") or a.j.get("ct", "").endswith("*"):
            e, off = a, b
        else:
            e, off = b, a
    if e.k == "UnaryOperator" and e.j.get("op") == "&":
        s = e.children[0].strip()
        if s.k == "ArraySubscriptExpr":
            e, off = s.children[0].strip(), s.children[1]
    if e.k == "DeclRefExpr":
        key = (fn.unit, e.j.get("did"))
        if key in arrays:
            return arrays[key], off
    return None, None


def limit_relation(lim, arr, off):
    """'tied' when the limit expression is provably <= the array's size (sizeof(arr), a constant
    <= size), else 'untied'."""
    if off is not None:
        return "untied"
    s = lim.strip()
    for n in s.walk():
        if n.k == "UnaryExprOrTypeTraitExpr":
            inner = n.children[0].strip() if n.children else None
            if inner is not None and inner.k == "DeclRefExpr" and inner.j.get("did") == arr.did:
                cv = lim.const_value()
                if cv is not None and cv <= arr.size:
                    return "tied"
    cv = lim.const_value()
    if cv is not None:
        return "tied" if cv <= arr.size else "untied"
    return "untied"


class WriteSite:
    def __init__(self, arr, fn, node, copier, verdict, why, src_class):
        self.arr, self.fn, self.node, self.copier = arr, fn, node, copier
        self.verdict, self.why, self.src_class = verdict, why, src_class
        self.src = ""
        if node.k == "CallExpr" and copier in COPIERS:
            a = node.call_args()
            idx = COPIERS[copier].get("src") or []
            parts = [render(a[i]) for i in idx if isinstance(i, int) and i < len(a)]
            if "fmt" in COPIERS[copier]:
                parts = [render(x) for x in a[COPIERS[copier]["fmt"] + 1:]]
            self.src = ",".join(parts)

    @property
    def key(self):
        return "%s:%s:%s" % (self.fn.name, self.arr.name, self.copier)

    @property
    def fullkey(self):
        return "%s:%s:%s:%s" % (self.fn.name, self.arr.name, self.copier, self.src)


def analyse_fixed_arrays(prog, util):
    """[WriteSite] for every write into a fixed char array.  verdict in
    ok | overflow | truncation | os-limit-truncation | exempt | unknown"""
    arrays = char_arrays(prog, util)
    ftab = prog.util_functions if util else prog.functions
    sites = []
    for f in ftab.values():
        if f.file.endswith(".h"):
            continue
        for c in f.calls():
            name = c.j.get("callee")
            args = c.call_args()
            if name in COPIERS:
                spec = COPIERS[name]
                if spec["dst"] >= len(args):
                    continue
                arr, off = dest_array(args[spec["dst"]], f, arrays)
                if arr is None:
                    continue
                srcs = []
                if "fmt" in spec:
                    fmt = args[spec["fmt"]].string_value() if spec["fmt"] < len(args) else None
                    if fmt is None:
                        # format held in a local initialised from a literal
                        cl = classify_source(args[spec["fmt"]], f, arrays)
                        fe = args[spec["fmt"]].strip()
                        lit = None
                        if fe.k == "DeclRefExpr":
                            defs = _local_defs(f, fe.j["name"])
                            if len(defs) == 1:
                                lit = defs[0].string_value()
                        fmt = lit
                    if fmt is None:
                        srcs.append((UNBOUNDED, "format is not a literal"))
                    else:
                        rest = args[spec["fmt"] + 1:]
                        ai = 0
                        import re as _re
                        lens = _re.findall(r"%[-+ #0']*[0-9*]*(?:\.[0-9*]*)?([hlLqjzt]*)([a-zA-Z])", fmt.replace("%%", ""))
                        for k, (conv, width, prec) in enumerate(parse_format(fmt)):
                            length = lens[k][0] if k < len(lens) else ""
                            pv = None
                            if width == "*":
                                ai += 1
                            if prec == "*":
                                pv = rest[ai].const_value() if ai < len(rest) else None
                                ai += 1
                            elif prec not in (None, ""):
                                pv = int(prec)
                            if conv == "s":
                                if prec not in (None, "*", ""):
                                    srcs.append((BOUNDED, int(prec)))
                                elif ai < len(rest):
                                    srcs.append(classify_source(rest[ai], f, arrays))
                                else:
                                    srcs.append((UNBOUNDED, "missing argument"))
                            else:
                                at = rest[ai].j.get("ct") if ai < len(rest) else None
                                w = conv_max_width(conv, length, pv, at)
                                if width and width.isdigit():
                                    w = max(w, int(width))
                                srcs.append((BOUNDED, w))
                            ai += 1
                        srcs.append((LITERAL, format_literal_len(fmt)))
                else:
                    for si in spec["src"]:
                        if isinstance(si, int) and si < len(args):
                            srcs.append(classify_source(args[si], f, arrays))
                        else:
                            srcs.append((UNBOUNDED, "external input"))
                    if not srcs:
                        srcs.append((UNBOUNDED, "external input"))
                worst = max(srcs, key=lambda x: x[0])
                lim = spec["lim"]
                if lim == "inplace":
                    sites.append(WriteSite(arr, f, c, name, "ok", "edits the template in place", worst[0]))
                    continue
                if lim == "PATH_MAX":
                    if arr.size_mac == "PATH_MAX" and off is None:
                        sites.append(WriteSite(arr, f, c, name, "ok", "realpath into a PATH_MAX buffer (its contract)", worst[0]))
                    else:
                        sites.append(WriteSite(arr, f, c, name, "overflow",
                                               "realpath() needs a PATH_MAX buffer, %s has %d bytes" % (arr.name, arr.size), worst[0]))
                    continue
                rel = "none" if lim is None else limit_relation(args[lim], arr, off)
                if worst[0] in (LITERAL, BOUNDED):
                    total = 0
                    for cl, det in srcs:
                        total += det if isinstance(det, int) else 24
                    fits = off is None and total + 1 <= arr.size
                    if rel == "tied":
                        if fits:
                            sites.append(WriteSite(arr, f, c, name, "ok", "bounded sources (<= %d bytes + NUL) fit %d, limit tied to the array" % (total, arr.size), worst[0]))
                        elif arr.size_mac in OS_LIMIT_MACROS and arr.size >= 4096:
                            sites.append(WriteSite(arr, f, c, name, "os-limit-truncation",
                                                   "bounded sources of up to %d bytes cut at %s: names are only claimed up to the OS limits" % (total, arr.size_mac), worst[0]))
                        else:
                            sites.append(WriteSite(arr, f, c, name, "truncation",
                                                   "the text can be up to %d bytes long (+NUL) but %s has %d: the longest values are cut" % (total, arr.name, arr.size), worst[0]))
                    else:
                        if fits:
                            sites.append(WriteSite(arr, f, c, name, "ok", "bounded sources (<= %d bytes + NUL) fit %d" % (total, arr.size), worst[0]))
                        else:
                            sites.append(WriteSite(arr, f, c, name, "overflow",
                                                   "bounded sources of up to %d bytes into %d bytes without a tied limit" % (total, arr.size), worst[0]))
                    continue
                if worst[0] == EXEMPT:
                    sites.append(WriteSite(arr, f, c, name, "exempt", "source is %s" % worst[1], worst[0]))
                    continue
                # unbounded source
                if rel == "tied":
                    if arr.size_mac in OS_LIMIT_MACROS and arr.size >= 4096 and not (set(render(args[i]) for i in spec.get("src", []) if isinstance(i, int) and i < len(args)) & list_tainted(f)):
                        sites.append(WriteSite(arr, f, c, name, "os-limit-truncation",
                                               "unbounded source %s cut at %s: names are only claimed up to the OS limits" % (worst[1], arr.size_mac), worst[0]))
                    else:
                        sites.append(WriteSite(arr, f, c, name, "truncation",
                                               "unbounded source %s is cut at %d bytes (%s[%s])" % (worst[1], arr.size, arr.name, arr.size_mac or arr.size), worst[0]))
                else:
                    guard = length_guard(f, c, args, spec, arr)
                    if guard:
                        sites.append(WriteSite(arr, f, c, name, "ok", "dominated by length guard %s" % guard, worst[0]))
                    else:
                        sites.append(WriteSite(arr, f, c, name, "overflow",
                                               "unbounded source %s copied by %s with %s" % (
                                                   worst[1], name, "no limit" if rel == "none" else "a limit not tied to the array's size (%s)" % render(args[lim])),
                                               worst[0]))
            elif name in SCANF:
                fi = 0 if name in ("scanf", "__isoc99_scanf") else 1
                fmt = args[fi].string_value() if fi < len(args) else None
                rest = args[fi + 1:]
                if fmt is None:
                    continue
                for k, (conv, width, prec) in enumerate(parse_format(fmt)):
                    if conv in ("s", "[") and k < len(rest):
                        arr, off = dest_array(rest[k], f, arrays)
                        if arr is None:
                            continue
                        if width and width.isdigit() and int(width) < arr.size and off is None:
                            src0 = args[0] if name in ("sscanf", "__isoc99_sscanf") and args else None
                            tl = list_tainted(f)
                            if src0 is not None and render(src0) in tl:
                                sites.append(WriteSite(arr, f, c, name, "truncation",
                                                       "`%s` is part of a list handed in by the caller (not a file name): %%%s%s cuts an item longer than %s bytes"
                                                       % (render(src0), width, conv, width), UNBOUNDED))
                            else:
                                sites.append(WriteSite(arr, f, c, name, "ok", "field width %s < %d" % (width, arr.size), UNBOUNDED))
                        else:
                            sites.append(WriteSite(arr, f, c, name, "overflow", "%%%s without a fitting field width" % conv, UNBOUNDED))
        # element stores
        for lhs, rhs, st, kind in query.stores(f):
            l = lhs.strip()
            if l.k != "ArraySubscriptExpr":
                continue
            base = l.children[0].strip()
            if base.k != "DeclRefExpr":
                continue
            key = (f.unit, base.j.get("did"))
            if key not in arrays:
                continue
            arr = arrays[key]
            idx = l.children[1]
            cv = idx.const_value()
            if cv is not None:
                if 0 <= cv < arr.size:
                    sites.append(WriteSite(arr, f, st, "element-store", "ok", "constant index %d < %d" % (cv, arr.size), LITERAL))
                else:
                    sites.append(WriteSite(arr, f, st, "element-store", "overflow", "constant index %d outside %d" % (cv, arr.size), LITERAL))
            else:
                if index_guard(f, st, idx, arr):
                    sites.append(WriteSite(arr, f, st, "element-store", "ok", "index guarded against the size", BOUNDED))
                else:
                    sites.append(WriteSite(arr, f, st, "element-store", "overflow",
                                           "index %s is not compared with the array's size" % render(idx), UNBOUNDED))
    return arrays, sites


def length_guard(fn, call, args, spec, arr):
    """A dominating comparison that mentions strlen(<source>) and the array's size (or its
    size macro value) and leaves the function on the bad side."""
    cfg = fn.cfg
    tb = cfg.block_of(call)
    srcs = [render(args[i]) for i in spec.get("src", []) if isinstance(i, int) and i < len(args)]
    for (b, i, s) in cfg.edges():
        lit = cfg.edge_lit(b, i)
        if lit is None or lit.kind != "lt":
            continue
        txt = lit.atom
        if "strlen" not in txt:
            continue
        if not any(n.const_value() == arr.size for n in lit.node.walk() if n.is_expr()):
            continue
        # the edge on which the length is too large must not reach the call
        bad_edge = (b, i)
        other = (b, 1 - i)
        if tb not in cfg.reachable(cfg.blocks[b].succs[i]) or tb not in cfg.reachable(cfg.blocks[b].succs[1 - i]):
            if cfg.dominates(b, tb):
                return render(lit.node)
    return None


def index_guard(fn, st, idx, arr):
    cfg = fn.cfg
    tb = cfg.block_of(st)
    it = render(idx)
    for (b, i, s) in cfg.edges():
        lit = cfg.edge_lit(b, i)
        if lit is None or lit.kind != "lt":
            continue
        if render(lit.lhs) == it and (lit.rhs.const_value() is not None and lit.rhs.const_value() <= arr.size) and lit.pol:
            if cfg.dominates(s, tb) or s == tb:
                return True
    # two-step bound  `if (n >= sizeof a) return ..;  for (i = 0; i < n; i++) a[i] = ..`:  i < n on the way in, n < size before that, n never reassigned
    for (b, i, s) in cfg.edges():
        lit = cfg.edge_lit(b, i)
        if lit is None or lit.kind != "lt" or not lit.pol or render(lit.lhs) != it:
            continue
        v9 = lit.rhs.strip()
        if v9.k != "DeclRefExpr" or v9.j.get("dk") not in ("local", "param"):
            continue
        if not (cfg.dominates(s, tb) or s == tb):
            continue
        from .dataflow import ReachingDefs as _RDv
        dv = [d for d in _RDv(fn).defs if d.var == v9.j["name"]]
        if len(dv) > 1 or any(render(a9) == "&" + v9.j["name"] for c9 in fn.calls() for a9 in c9.call_args()):
            continue
        for (b2, i2, s2) in cfg.edges():
            l2 = cfg.edge_lit(b2, i2)
            if l2 is None or l2.kind != "lt" or not l2.pol or render(l2.lhs) != v9.j["name"]:
                continue
            c2 = l2.rhs.const_value()
            if c2 is not None and c2 <= arr.size and (cfg.dominates(s2, tb) or s2 == tb):
                return True
    # the count returned by readlink()/read() into this very array with a limit below its size:  n = readlink(p, a, sizeof(a) - 1); a[n] = 0;
    i9 = idx.strip()
    if i9.k == "DeclRefExpr" and i9.j.get("dk") == "local":
        from .dataflow import ReachingDefs as _RD9
        ds9 = [d for d in _RD9(fn).defs if d.var == i9.j["name"]]
        def _counted(d):
            r = d.rhs.strip() if d.rhs is not None else None
            while r is not None and r.k in ("ImplicitCastExpr", "ParenExpr", "CStyleCastExpr") and r.children:
                r = r.children[0].strip()
            if r is None or r.k != "CallExpr" or r.j.get("callee") not in ("readlink", "read", "readlinkat", "pread", "recv"):
                return False
            a = r.call_args()
            bi = 2 if r.j["callee"] == "readlinkat" else 1
            return len(a) > bi + 1 and render(a[bi]) == arr.name and a[bi + 1].const_value() is not None and a[bi + 1].const_value() <= arr.size - 1
        if ds9 and all(_counted(d) for d in ds9):
            okn, cutn = cfg.all_paths_cut(tb, lambda lit, b, i: lit is not None and lit.kind == "lt" and render(lit.lhs) == it and lit.rhs.const_value() == 0 and not lit.pol)
            if okn and cutn:
                return True
    # an index that starts as strlen(<this array>) and only goes down: `len = strlen(a); while (len > 0 && ..) a[--len] = 0;`
    ix = idx.strip()
    if ix.k == "UnaryOperator" and ix.j.get("op") in ("--",):
        ix = ix.children[0].strip()
    elif ix.k == "BinaryOperator" and ix.j.get("op") == "-" and ix.children[1].const_value() is not None and ix.children[1].const_value() >= 0:
        ix = ix.children[0].strip()
    if ix.k == "DeclRefExpr" and ix.j.get("dk") == "local":
        from .dataflow import ReachingDefs as _RDx
        _rdx = _RDx(fn)
        dsx = [d for d in _rdx.defs if d.var == ix.j["name"]]       # every definition the function has for it
        def _down(d):
            if d.rhs is not None and render(d.rhs.strip()) == "strlen(%s)" % arr.name:
                return True
            if d.node is not None and d.node.k == "UnaryOperator" and (d.node.j.get("op") == "--" or "--" in render(d.node)):
                return True
            if d.node is not None and d.node.k == "CompoundAssignOperator" and d.node.j.get("op") == "-=":
                return True
            return False
        if dsx and all(_down(d) for d in dsx) and any(d.rhs is not None and render(d.rhs.strip()) == "strlen(%s)" % arr.name for d in dsx):
            return True
    # the counter of a finished loop: `for (i = 0; i < C && ..; i++) ..;  a[i] = 0;` leaves i <= C
    i0 = idx.strip()
    if i0.k == "DeclRefExpr":
        from . import loops as _loops
        from .dataflow import ReachingDefs
        rd = None
        for lp in fn.walk():
            if lp.k not in ("ForStmt", "WhileStmt") or st.within(lp):
                continue
            sh = _loops.index_shape(lp)
            if not sh.ok or sh.var != it or sh.step != 1 or sh.cmp not in ("<", "<="):
                continue
            bn = getattr(sh, "bound_node", None)
            if bn is None:
                cond = lp.child("cond")
                for c in (cond.walk() if cond is not None else []):
                    if c.k == "BinaryOperator" and c.j.get("op") in ("<", "<=") and render(c.children[0]) == it and render(c.children[1]) == sh.bound:
                        bn = c.children[1]
            cmax = bn.const_value() if bn is not None else None
            lo = sh.start_node.const_value() if sh.start_node is not None else None
            if cmax is None or lo is None or lo < 0:
                continue
            top = cmax if sh.cmp == "<" else cmax + 1          # largest value the counter can have when the loop is left
            if lo > top or top >= arr.size:
                continue
            if not cfg.dominates(cfg.loop_header(lp), tb):
                continue
            rd = rd or ReachingDefs(fn)
            ds = rd.reaching(it, st)
            if ds and all(d.node is not None and (d.node.within(lp) or d.rhs is sh.start_node) for d in ds):
                return True
    return False


# ---- Part 2: exact-fit allocations --------------------------------------------------------------

def _norm(e):
    """render with postfix/prefix ++/-- removed (config_dirs[i++] -> config_dirs[i])"""
    return render(e).replace("++", "").replace("--", "")


def _linear(e, fn, depth=0):
    """size expression -> (list of strlen operands, constant) or None when not of that shape"""
    e = e.strip()
    cv = e.const_value()
    if cv is not None and e.k != "DeclRefExpr":
        return [], cv
    if e.k == "BinaryOperator" and e.j.get("op") == "+":
        a = _linear(e.children[0], fn, depth)
        b = _linear(e.children[1], fn, depth)
        if a is None or b is None:
            return None
        return a[0] + b[0], a[1] + b[1]
    if e.k == "BinaryOperator" and e.j.get("op") == "*":
        a, b = e.children[0].strip(), e.children[1].strip()
        # n * sizeof(char)
        for x, y in ((a, b), (b, a)):
            if y.k == "UnaryExprOrTypeTraitExpr" and y.const_value() == 1:
                return _linear(x, fn, depth)
        return None
    if e.k == "CallExpr" and e.j.get("callee") == "strlen":
        return [_norm(e.call_args()[0])], 0
    if e.k == "DeclRefExpr" and e.j.get("dk") == "local" and depth < 3:
        defs = _local_defs(fn, e.j["name"])
        adds = [rhs for lhs, rhs, st, kind in query.stores(fn)
                if kind == "op=" and st.j.get("op") == "+=" and render(lhs) == e.j["name"]]
        if len(defs) == 1 and not adds:
            return _linear(defs[0], fn, depth + 1)
        # accumulator: v = 0; v = E0; v += E1 (possibly under a condition) ...
        plain = [d for d in defs if d.const_value() != 0 or d.strip().k != "IntegerLiteral"]
        if len(plain) == 1 and adds:
            base = _linear(plain[0], fn, depth + 1)
            if base is None:
                return None
            terms, const = list(base[0]), base[1]
            for a in adds:
                la = _linear(a, fn, depth + 1)
                if la is None:
                    return None
                terms += la[0]      # optimistic: conditional terms counted as present
            ACCUMULATED.add(id(fn))
            return terms, const
        return None
    if cv is not None:
        return [], cv
    return None


ACCUMULATED = set()


class FitSite:
    def __init__(self, fn, alloc, var, terms, const, verdict, why):
        self.fn, self.alloc, self.var, self.terms, self.const = fn, alloc, var, terms, const
        self.verdict, self.why = verdict, why

    @property
    def key(self):
        return "%s:%s" % (self.fn.name, self.var)


def analyse_exact_fit(prog, util=False):
    ftab = prog.util_functions if util else prog.functions
    out = []
    for f in ftab.values():
        if f.file.endswith(".h"):
            continue
        for c in f.calls(("malloc", "alloca", "__builtin_alloca")):
            size = c.call_args()[0]
            ACCUMULATED.discard(id(f))
            lin = _linear(size, f)
            accumulated = id(f) in ACCUMULATED
            if lin is None or not lin[0]:
                continue        # not a strlen-sized string buffer
            terms, const = lin
            # destination variable
            up = c.up()
            var = None
            if up is not None and up.k == "BinaryOperator" and up.j.get("op") == "=":
                l = up.children[0].strip()
                if l.k == "DeclRefExpr":
                    var = l.j["name"]
            elif up is not None and up.k == "DeclStmt":
                for d in up.j.get("decls", []):
                    if d.get("init", -1) >= 0 and f.nodes[d["init"]].strip() is c:
                        var = d["name"]
            if var is None:
                out.append(FitSite(f, c, "?", terms, const, "unknown", "allocation result not bound to a variable"))
                continue
            rd = _rd(f)
            needed_terms = []
            extra = 0
            explicit_nul = False
            problems = []
            limited_ok = False

            def charged(ptr_expr, at):
                o = origins(rd, ptr_expr, at)
                if c not in o:
                    return False
                if len(o) > 1:
                    problems.append("pointer %s may also stem from %d other source(s) at %s" % (render(ptr_expr), len(o) - 1, at.where))
                return True

            for n in f.walk():
                if n.k == "CallExpr" and n is not c:
                    cn = n.j.get("callee")
                    a = n.call_args()
                    if cn in ("stpcpy", "strcpy", "strcat") and a:
                        if charged(a[0], n):
                            s2 = a[1].strip()
                            if s2.k == "StringLiteral":
                                extra += len(s2.j.get("str", ""))
                            else:
                                needed_terms.append(_norm(a[1]))
                    elif cn in ("snprintf",) and a:
                        if charged(a[0], n):
                            l2 = _linear(a[1], f)
                            if l2 is not None and sorted(l2[0]) == sorted(terms) and l2[1] <= const:
                                limited_ok = True
                            else:
                                problems.append("snprintf limit %s is not the allocation size" % render(a[1]))
                    elif cn in ("memcpy", "mempcpy", "memmove") and len(a) == 3 and _linear(a[2], f) is not None \
                            and _linear(a[2], f)[0] == [_norm(a[1])] and _linear(a[2], f)[1] in (0, 1):
                        # memcpy(dst, S, strlen(S) [+ 1]): a string copy of S, with or without its terminator
                        if charged(a[0], n):
                            needed_terms.append(_norm(a[1]))
                            if _linear(a[2], f)[1] == 1:
                                extra += 1
                                explicit_nul = True
                    elif cn in ("sprintf", "strncpy", "memcpy", "mempcpy", "memmove", "strncat", "vsprintf", "gets") and a:
                        if charged(a[0], n):
                            problems.append("%s into the buffer: idiom not understood" % cn)
            for lhs, rhs, st, kind in query.stores(f):
                l = lhs.strip()
                if l.j.get("ct") not in ("char",):
                    continue
                if l.k == "UnaryOperator" and l.j.get("op") == "*":
                    ptr = l.children[0]
                elif l.k == "ArraySubscriptExpr":
                    ptr = l.children[0]
                else:
                    continue
                if charged(ptr, st):
                    lp9 = next((a9 for a9 in st.ancestors() if a9.k in ("ForStmt", "WhileStmt", "DoStmt") and not c.within(a9)), None)
                    if lp9 is not None and not (rhs is not None and rhs.const_value() is not None and False):
                        # a transcription loop: one pointer walks over a string of the size expression, every round stores at most one
                        # byte through the destination pointer and moves the source on by at least one -> at most strlen(source) bytes
                        from . import loops as _loops9
                        src9 = None
                        for t9 in _loops9.traversals(lp9):
                            if t9.ptr and t9.step > 0:
                                src9 = t9
                        walked = None
                        if src9 is not None:
                            # what the source pointer starts at
                            ds9 = [d for d in rd.reaching(src9.var, lp9.child("cond") or st) if d.rhs is not None and (d.node is None or not d.node.within(lp9.child("body") or lp9))]
                            starts = set(_norm(d.rhs) for d in ds9 if d.kind in ("init", "assign"))
                            if len(starts) == 1 and list(starts)[0] in terms:
                                walked = list(starts)[0]
                        if walked is None and lp9.k == "ForStmt" and lp9.child("init") is not None and lp9.child("cond") is not None and lp9.child("inc") is not None:
                            # for (in = S; *in != 0; in++)
                            i9 = lp9.child("init").strip()
                            v9 = s9 = None
                            if i9.k == "DeclStmt" and i9.j.get("decls") and i9.j["decls"][0].get("init", -1) >= 0:
                                v9, s9 = i9.j["decls"][0]["name"], _norm(f.nodes[i9.j["decls"][0]["init"]])
                            elif i9.k == "BinaryOperator" and i9.j.get("op") == "=":
                                v9, s9 = render(i9.children[0]), _norm(i9.children[1])
                            c9 = render(lp9.child("cond"))
                            inc9 = render(lp9.child("inc"))
                            if v9 and s9 in terms and c9 in ("*%s" % v9, "*%s != '\\x00'" % v9, "*%s != 0" % v9, "%s[0]" % v9) and inc9 in ("%s++" % v9, "++%s" % v9):
                                # the source pointer only ever moves forward inside the body
                                back = [s2 for l2, r2, s2, k2 in query.stores(f) if s2.within(lp9.child("body")) and render(l2) == v9 and k2 not in ("++", "+=")]
                                if not back:
                                    walked = s9
                        if walked is not None:
                            cfg9 = f.cfg
                            sb9 = [cfg9.block_of(s2) for l2, r2, s2, k2 in query.stores(f) if s2.within(lp9) and s2 is not st and l2.strip().j.get("ct") == "char"
                                   and ((l2.strip().k == "UnaryOperator" and origins(rd, l2.strip().children[0], s2) & origins(rd, ptr, st))
                                        or (l2.strip().k == "ArraySubscriptExpr" and origins(rd, l2.strip().children[0], s2) & origins(rd, ptr, st)))]
                            hb9 = cfg9.loop_header(lp9)
                            mine9 = cfg9.block_of(st)
                            twice = any(b9 == mine9 or b9 in cfg9.reachable(mine9, avoid_blocks=[hb9]) or mine9 in cfg9.reachable(b9, avoid_blocks=[hb9]) for b9 in sb9)
                            if not twice:
                                if walked not in needed_terms:
                                    needed_terms.append(walked)
                                continue
                        problems.append("bytes are stored one by one in a loop: idiom not understood")
                        continue
                    extra += 1
                    if rhs is not None and rhs.const_value() == 0:
                        explicit_nul = True
            if limited_ok and not needed_terms and not problems:
                out.append(FitSite(f, c, var, terms, const, "ok", "filled by snprintf limited to the allocation size"))
                continue
            need_const = extra + (0 if explicit_nul else 1)
            avail = list(terms)
            missing = []
            for t in needed_terms:
                if t in avail:
                    avail.remove(t)
                else:
                    missing.append(t)
            if problems:
                out.append(FitSite(f, c, var, terms, const, "unknown", "; ".join(problems)))
            elif missing:
                out.append(FitSite(f, c, var, terms, const, "overflow",
                                   "copies %s into a buffer sized for strlen of %s + %d" % (missing, terms, const)))
            elif need_const > const:
                out.append(FitSite(f, c, var, terms, const, "overflow",
                                   "needs %d extra bytes (separators, literals, NUL) but the size only adds %d" % (need_const, const)))
            elif not needed_terms and not extra:
                out.append(FitSite(f, c, var, terms, const, "unknown", "no copy into the buffer recognised"))
            elif accumulated:
                out.append(FitSite(f, c, var, terms, const, "unknown",
                                   "the size is accumulated over several (conditional) statements; the fit is not provable syntactically"))
            else:
                out.append(FitSite(f, c, var, terms, const, "ok",
                                   "copies %s (+%d bytes) into strlen(%s)+%d" % (needed_terms, need_const, "+".join(terms), const)))
    return out


_RD = {}


def _rd(f):
    k = id(f)
    if k not in _RD:
        _RD[k] = ReachingDefs(f)
    return _RD[k]


def _in_loop_with(f, n, c):
    return False


# ---- Part 3: unlimited copies into heap memory -------------------------------------------------------

def _redefined_between(fn, names, d_node, a_node):
    """Is any of the variables redefined on a path from d_node to a_node that does not pass
    d_node again?  (Definitions inside a_node's own argument list, e.g. a[i++], do not count.)"""
    cfg = fn.cfg
    rd = _rd(fn)
    pd, pa = cfg.index_of(d_node), cfg.index_of(a_node)
    if pd is None or pa is None:
        return True
    db, ab = pd[0], pa[0]
    fwd = set()
    for s2 in cfg.blocks[db].succs:
        if s2 is not None and s2 != db:
            fwd |= cfg.reachable(s2, avoid_blocks=[db])
    bwd = cfg.reachable(ab, avoid_blocks=[db], forward=False) if ab != db else set()
    mid = fwd & bwd
    for d in rd.defs:
        if d.var not in names or d.node is None or d.node is d_node or d.kind == "uninit":
            continue
        if d.node.within(a_node):
            continue
        px = cfg.index_of(d.node)
        if px is None:
            continue
        b, k = px
        if b == db and b == ab:
            if pd[1] < k < pa[1]:
                return True
        elif b == db:
            if k > pd[1] and ab in fwd:
                return True
        elif b == ab:
            if k < pa[1] and b in mid:
                return True
        elif b in mid:
            return True
    return False


def _names(e):
    return set(x.j["name"] for x in e.walk() if x.k == "DeclRefExpr" and x.j.get("dk") in ("local", "param"))


def size_form(e, fn, at, depth=0):
    """linear form of a size expression valid at node `at`:
    dict(terms=[strlen operands], const=int, opaque=[variables], nonlinear=bool)"""
    e = e.strip()
    out = dict(terms=[], const=0, opaque=[], nonlinear=False)
    cv = e.const_value()
    if cv is not None and e.k != "DeclRefExpr":
        out["const"] = cv
        return out
    if e.k == "BinaryOperator" and e.j.get("op") == "+":
        a = size_form(e.children[0], fn, at, depth)
        b = size_form(e.children[1], fn, at, depth)
        return dict(terms=a["terms"] + b["terms"], const=a["const"] + b["const"], opaque=a["opaque"] + b["opaque"],
                    nonlinear=a["nonlinear"] or b["nonlinear"])
    if e.k == "BinaryOperator" and e.j.get("op") == "*":
        a, b = e.children[0].strip(), e.children[1].strip()
        for x, y in ((a, b), (b, a)):
            if y.k == "UnaryExprOrTypeTraitExpr" and y.const_value() == 1:
                return size_form(x, fn, at, depth)
        out["nonlinear"] = True
        return out
    if e.k == "CallExpr" and e.j.get("callee") == "strlen":
        out["terms"] = [_norm(e.call_args()[0])]
        return out
    if e.k == "DeclRefExpr" and e.j.get("dk") in ("local", "param"):
        if e.j.get("dk") == "local" and depth < 3:
            rd = _rd(fn)
            defs = [d for d in rd.reaching(e.j["name"], at) if d.kind in ("assign", "init")]
            alld = rd.reaching(e.j["name"], at)
            if len(alld) == 1 and len(defs) == 1 and defs[0].rhs is not None:
                d = defs[0]
                if not _redefined_between(fn, _names(d.rhs), d.node, at):
                    return size_form(d.rhs, fn, d.node, depth + 1)
            # a length that is added up: `len = strlen(a) + 1; if (b) len += strlen(b) + 1;` - the terms of an addition count under the
            # condition the addition stands under (cond_terms: [(term, frozenset of (atom, polarity))])
            ups = [d for d in alld if d not in defs]
            if len(defs) == 1 and defs[0].rhs is not None and ups and all(
                    d.node is not None and d.node.k == "CompoundAssignOperator" and d.node.j.get("op") == "+=" for d in ups):
                base = size_form(defs[0].rhs, fn, defs[0].node, depth + 1)
                if not base["nonlinear"] and not base["opaque"]:
                    cfg = fn.cfg
                    base.setdefault("cond_terms", [])
                    for d in ups:
                        addend = d.node.children[1]
                        # a conditional addend `(p != NULL ? 1 : 0)` contributes no strlen term
                        parts = size_form(addend, fn, d.node, depth + 1) if addend.strip().k != "ConditionalOperator" else dict(terms=[], const=0, opaque=[], nonlinear=False)
                        if addend.strip().k == "BinaryOperator":
                            # strlen(x) + (c ? 1 : 0): look at the summands one by one
                            def summands(x):
                                x0 = x.strip()
                                if x0.k == "BinaryOperator" and x0.j.get("op") == "+":
                                    return summands(x0.children[0]) + summands(x0.children[1])
                                return [x0]
                            parts = dict(terms=[], const=0, opaque=[], nonlinear=False)
                            for sm in summands(addend):
                                if sm.k == "ConditionalOperator":
                                    continue
                                pf = size_form(sm, fn, d.node, depth + 1)
                                parts["terms"] += pf["terms"]
                                parts["nonlinear"] = parts["nonlinear"] or pf["nonlinear"]
                                parts["opaque"] += pf["opaque"]
                        if parts["nonlinear"] or parts["opaque"]:
                            base["nonlinear"] = True
                            break
                        guards = frozenset((l.atom, l.pol) for l in cfg.required_literals(cfg.block_of(d.node)) if l is not None)
                        for t in parts["terms"]:
                            base["cond_terms"].append((t, guards))
                    return base
        out["opaque"] = [e.j["name"]]
        return out
    if cv is not None:
        out["const"] = cv
        return out
    out["nonlinear"] = True
    return out


class HeapCopy:
    def __init__(self, fn, call, src, verdict, why):
        self.fn, self.call, self.src, self.verdict, self.why = fn, call, src, verdict, why

    @property
    def key(self):
        return "%s:%s:%s" % (self.fn.name, self.call.j.get("callee"), self.src)


HEAP_ALLOCS = ("malloc", "calloc", "realloc", "alloca", "__builtin_alloca", "strdup", "strndup")


def analyse_heap_copies(prog, util=False):
    """Every unlimited copy (strcpy/stpcpy/strcat) of an unbounded string into memory that stems
    from an allocation: each allocation the destination may stem from must be sized with
    strlen(<that string>), valid at the allocation."""
    ftab = prog.util_functions if util else prog.functions
    arrays = char_arrays(prog, util)
    out = []
    for f in ftab.values():
        if f.file.endswith(".h"):
            continue
        rd = None
        for c in f.calls(("strcpy", "stpcpy", "strcat")):
            a = c.call_args()
            if len(a) < 2:
                continue
            arr, off = dest_array(a[0], f, arrays)
            if arr is not None:
                continue
            cl = classify_source(a[1], f, arrays)
            if cl[0] != UNBOUNDED:
                continue
            rd = rd or _rd(f)
            o = origins(rd, a[0], c)
            allocs = [x for x in o if not isinstance(x, tuple) and x.k == "CallExpr" and x.j.get("callee") in HEAP_ALLOCS]
            if not allocs:
                continue
            src = _norm(a[1])
            verdict, why = "ok", []
            for al in allocs:
                cn = al.j["callee"]
                if cn in ("strdup", "strndup"):
                    verdict = "overflow"
                    why.append("the destination may be the exact-size copy made by %s() at %s" % (cn, al.where))
                    continue
                sz = al.call_args()[1] if cn == "realloc" else al.call_args()[0]
                if cn == "calloc":
                    sz = al.call_args()[0]
                form = size_form(sz, f, al)
                if src in form["terms"] and not _redefined_between(f, _names(a[1]), al, c):
                    continue
                if form.get("cond_terms") and not _redefined_between(f, _names(a[1]), al, c):
                    here = frozenset((l.atom, l.pol) for l in f.cfg.required_literals(f.cfg.block_of(c)) if l is not None)
                    if any(t == src and g <= here for t, g in form["cond_terms"]):
                        continue
                if form["opaque"]:
                    if verdict == "ok":
                        verdict = "unknown"
                    why.append("size %s at %s depends on `%s`, which is not followed" % (render(sz), al.where, form["opaque"][0]))
                    continue
                if form["nonlinear"]:
                    if verdict == "ok":
                        verdict = "unknown"
                    why.append("size %s at %s is not a linear strlen form" % (render(sz), al.where))
                else:
                    verdict = "overflow"
                    why.append("allocation size `%s` at %s does not include strlen(%s)" % (render(sz), al.where, src))
            out.append(HeapCopy(f, c, src, verdict, "; ".join(why) or "every allocation the destination stems from is sized with strlen(%s)" % src))
        # limited copies (snprintf / strncpy) of unbounded text into a heap buffer: the buffer must have been sized FOR that text,
        # otherwise the limit silently cuts it (a buffer allocated once, before the text was known)
        for c in f.calls(("snprintf", "strncpy", "strlcpy")):
            a = c.call_args()
            if len(a) < 3:
                continue
            arr, off = dest_array(a[0], f, arrays)
            if arr is not None:
                continue
            if c.j["callee"] == "snprintf":
                fmt = a[2].string_value() if len(a) > 2 else None
                if fmt is None:
                    continue
                convs = [cv for cv in parse_format(fmt) if isinstance(cv, dict) or (isinstance(cv, tuple) and len(cv) > 1)]
                srcs = [x for x in a[3:] if (x.j.get("ct") or "").endswith("char *")]
            else:
                srcs = [a[1]]
            unb = [x for x in srcs if classify_source(x, f, arrays)[0] == UNBOUNDED]
            if not unb:
                continue
            rd = rd or _rd(f)
            o = origins(rd, a[0], c)
            allocs = [x for x in o if not isinstance(x, tuple) and x.k == "CallExpr" and x.j.get("callee") in HEAP_ALLOCS and x.j.get("callee") not in ("strdup", "strndup")]
            if not allocs:
                continue
            verdict, why = "ok", []
            for al in allocs:
                cn = al.j["callee"]
                sz = al.call_args()[1] if cn == "realloc" else al.call_args()[0]
                form = size_form(sz, f, al)
                for x in unb:
                    src = _norm(x)
                    if src in form["terms"] and not _redefined_between(f, _names(x), al, c):
                        continue
                    if form["nonlinear"]:
                        if verdict == "ok":
                            verdict = "unknown"
                        why.append("size %s at %s is not a linear strlen form" % (render(sz), al.where))
                    else:
                        verdict = "truncation"
                        why.append("the buffer allocated at %s has `%s` bytes, which does not depend on strlen(%s): %s() cuts longer text" % (
                            al.where, render(sz), src, c.j["callee"]))
            out.append(HeapCopy(f, c, ", ".join(_norm(x) for x in unb), verdict, "; ".join(why) or "the buffer was sized for the text it receives"))
    return out


# ---- Part 4: buffers that carry their capacity in a variable (grown on demand) ------------------------------------

def _strip_casts(e):
    e = e.strip()
    while e.k in ("ImplicitCastExpr", "ParenExpr", "CStyleCastExpr") and e.children:
        e = e.children[0].strip()
    return e


def _plus_const(e):
    """(render of the variable part, constant) for `x`, `x + c`, `c + x`; None when not of that shape"""
    e0 = _strip_casts(e)
    if e0.k == "BinaryOperator" and e0.j.get("op") in ("+", "-"):
        l, r = _strip_casts(e0.children[0]), _strip_casts(e0.children[1])
        sign = 1 if e0.j["op"] == "+" else -1
        if r.const_value() is not None and l.const_value() is None:
            return render(l), sign * r.const_value()
        if l.const_value() is not None and r.const_value() is None and sign == 1:
            return render(r), l.const_value()
        return None
    if e0.const_value() is not None:
        return None
    return render(e0), 0


def analyse_grown_buffers(prog, util=False):
    """memcpy/memmove of a counted number of bytes into a heap buffer whose capacity lives in a variable
    (`p = malloc(n0); cap = n0; ... if (need > cap) { p = realloc(p, m); cap = m; } memcpy(p, s, need)`): on every path to
    the copy the count must be known to fit - a comparison `count <= cap` taken on the path, or the path goes through a
    re-allocation whose new size is getline()'s own capacity for the very line that is copied."""
    ftab = prog.util_functions if util else prog.functions
    out = []
    for f in ftab.values():
        if f.file.endswith(".h"):
            continue
        copies = [c for c in f.calls(("memcpy", "memmove", "mempcpy")) if len(c.call_args()) == 3]
        if not copies:
            continue
        cfg = f.cfg
        for c in copies:
            a = c.call_args()
            d0 = _strip_casts(a[0])
            if d0.k != "DeclRefExpr" or d0.j.get("dk") != "local":
                continue
            P = d0.j["name"]
            # allocations of P and the capacity variable set next to each of them
            allocs = []
            for lhs, rhs, st in f.assignments():
                nm = lhs["name"] if isinstance(lhs, dict) else render(lhs)
                if nm != P or rhs is None:
                    continue
                r0 = _strip_casts(rhs)
                if r0.k == "CallExpr" and r0.j.get("callee") in ("malloc", "realloc", "calloc"):
                    allocs.append((st, r0, r0.call_args()[1] if r0.j["callee"] == "realloc" else r0.call_args()[0]))
                elif r0.k == "DeclRefExpr" and r0.j.get("dk") == "local":
                    # p = tmp  with  tmp = realloc(p, m)
                    for l2, r2, st2 in f.assignments():
                        n2 = l2["name"] if isinstance(l2, dict) else render(l2)
                        if n2 == r0.j["name"] and r2 is not None and _strip_casts(r2).k == "CallExpr" and _strip_casts(r2).j.get("callee") == "realloc" \
                                and render(_strip_casts(r2).call_args()[0]) == P:
                            allocs.append((st, _strip_casts(r2), _strip_casts(r2).call_args()[1]))
            if not allocs:
                continue
            caps = None
            for st, call, size in allocs:
                here = set()
                sv = size.const_value()
                for lhs, rhs, st2 in f.assignments():
                    if rhs is None:
                        continue
                    nm = lhs["name"] if isinstance(lhs, dict) else render(lhs)
                    if nm == P:
                        continue
                    same = render(_strip_casts(rhs)) == render(_strip_casts(size)) or (sv is not None and rhs.const_value() == sv)
                    if same and (cfg.block_of(st2) == cfg.block_of(st) or isinstance(lhs, dict)):
                        here.add(nm)
                caps = here if caps is None else (caps & here)
            if not caps:
                continue
            N = sorted(caps)[0]
            cnt = _plus_const(a[2])
            if cnt is None:
                out.append(HeapCopy(f, c, render(a[2]), "unknown", "count `%s` is not of the form x + c" % render(a[2])))
                continue
            X, cc = cnt
            # getline contract: X = getline(&B, &M, ..) leaves X + 1 <= M
            gl = None
            for lhs, rhs, st in f.assignments():
                nm = lhs["name"] if isinstance(lhs, dict) else render(lhs)
                if nm == X and rhs is not None and _strip_casts(rhs).k == "CallExpr" and _strip_casts(rhs).j.get("callee") in ("getline", "getdelim"):
                    ga = _strip_casts(rhs).call_args()
                    gl = (render(ga[0]).lstrip("&"), render(ga[1]).lstrip("&"))
            if gl is None:
                # X = strlen(B) with B the line buffer of a getline(&B, &M, ..) in this function: strlen(B) + 1 <= M as well
                for lhs, rhs, st in f.assignments():
                    nm = lhs["name"] if isinstance(lhs, dict) else render(lhs)
                    if nm == X and rhs is not None and _strip_casts(rhs).k == "CallExpr" and _strip_casts(rhs).j.get("callee") == "strlen":
                        bname = render(_strip_casts(rhs).call_args()[0])
                        for g9 in f.calls(("getline", "getdelim")):
                            ga = g9.call_args()
                            if render(ga[0]).lstrip("&") == bname:
                                gl = (bname, render(ga[1]).lstrip("&"))
            grow_blocks = set()
            for st, call, size in allocs:
                if gl is not None and call.j["callee"] == "realloc" and render(_strip_casts(size)) == gl[1] and render(a[1]) == gl[0] and cc <= 1:
                    grow_blocks.add(cfg.block_of(st))

            def fits(lit, b, i):
                if cfg.blocks[b].succs[i] in grow_blocks or b in grow_blocks:
                    return True
                if lit is None or lit.kind != "lt":
                    return False
                l, r = _plus_const(lit.lhs), _plus_const(lit.rhs)
                if l is None or r is None:
                    return False
                # capacity against getline()'s capacity: cap >= M, and the line with its NUL fits M
                if gl is not None and cc <= 1 and render(a[1]) == gl[0] and not lit.pol and l == (N, 0) and r == (gl[1], 0):
                    return True
                if gl is not None and cc <= 1 and render(a[1]) == gl[0] and lit.pol and l == (gl[1], 0) and r == (N, 1):
                    return True
                if lit.pol and l[0] == X and r == (N, 0):
                    return cc <= l[1] + 1           # X + k < N
                if not lit.pol and l == (N, 0) and r[0] == X:
                    return cc <= r[1]               # N >= X + k
                return False
            ok, cut = cfg.all_paths_cut(cfg.block_of(c), fits)
            if ok:
                out.append(HeapCopy(f, c, render(a[2]), "ok", "every path to the copy compares %s with the capacity `%s` of `%s` (or re-allocates to getline()'s size)" % (render(a[2]), N, P)))
            else:
                out.append(HeapCopy(f, c, render(a[2]), "overflow",
                                    "`%s` bytes are copied into `%s`, whose capacity is `%s`, on a path on which only a weaker comparison (or none) "
                                    "was made: with %s == %s the copy writes one byte past the end" % (render(a[2]), P, N, X, N) if cc >= 1 else
                                    "`%s` bytes are copied into `%s` (capacity `%s`) without a comparison on the path" % (render(a[2]), P, N)))
    return out
