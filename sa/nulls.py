"""E-null: nullable string fields and guarded use.

A string field is nullable if some function stores NULL into it.  Every read of a nullable field
(directly, or through a local whose reaching definition is such a read) that flows into a
dereferencing sink must be behind a non-NULL test of the same access path (or of the local) on
every consistent path."""
from .ast import render
from . import query
from .dataflow import ReachingDefs
from .buf import parse_format

# routines whose pointer parameters must not be NULL (glibc declares them nonnull / dereferences them)
DEREF_SINKS = {
    "strlen": [0], "strdup": [0], "strndup": [0], "strcmp": [0, 1], "strncmp": [0, 1], "strcasecmp": [0, 1], "strncasecmp": [0, 1],
    "strchr": [0], "strrchr": [0], "strstr": [0, 1], "strpbrk": [0, 1], "strspn": [0, 1], "strcspn": [0, 1],
    "strcpy": [0, 1], "stpcpy": [0, 1], "strcat": [0, 1], "strncpy": [0, 1], "memcpy": [0, 1], "memmove": [0, 1],
    "strtol": [0], "strtoll": [0], "strtoul": [0], "strtoull": [0], "strtof": [0], "strtod": [0], "strtold": [0], "atoi": [0], "atol": [0],
    "__xpg_basename": [0], "basename": [0], "dirname": [0], "fopen": [0, 1], "lstat": [0], "stat": [0], "realpath": [0], "scandir": [0],
    "fputs": [0], "puts": [0], "strsep": [0],
}
# routines for which NULL is the ordinary answer ("no further token", "not found")
NULL_ANSWERS = ("strsep", "strtok_r", "strtok", "strchr", "strrchr", "strstr", "strpbrk", "memchr", "strcasestr", "getenv", "secure_getenv", "fgets")
PRINTF = {"printf": 0, "fprintf": 1, "sprintf": 1, "snprintf": 2, "asprintf": 1, "dprintf": 1}


def nullable_fields(prog, records=("file_entry", "econf_file")):
    """{(record, field)} string fields (char *) into which NULL is stored somewhere in lib/"""
    out = set()
    for f in prog.lib_functions():
        for lhs, rhs, st, kind in query.stores(f):
            l = lhs.strip()
            if kind == "=" and rhs is not None and rhs.is_null_const() and l.k == "MemberExpr" and l.j.get("rec") in records \
                    and l.j.get("ct") in ("char *", "const char *") and not query.is_slot_init(st):
                out.add((l.j["rec"], l.j["member"]))
    # objects created with calloc start with NULL in every field
    return out


def sink_of(node, prog, repo_sinks):
    """If `node` (an expression of pointer type) is used where NULL is not tolerated, return a description."""
    up = node.up()
    if up is None:
        return None
    if up.k == "UnaryOperator" and up.j.get("op") == "*":
        return "dereference"
    if up.k == "ArraySubscriptExpr" and up.children[0].strip() is node.strip():
        return "subscript"
    if up.k == "BinaryOperator" and up.j.get("op") in ("+", "-") and up.j.get("ct", "").endswith("*"):
        return sink_of(up, prog, repo_sinks)
    if up.k == "UnaryOperator" and up.j.get("op") in ("++", "--"):
        return None
    if up.k == "CallExpr":
        callee = up.j.get("callee")
        args = up.call_args()
        idx = None
        for i, a in enumerate(args):
            if a.strip() is node.strip() or node.within(a) and a.strip().k in ("ConditionalOperator",) and False:
                idx = i
        if idx is None:
            return None
        if callee in DEREF_SINKS and idx in DEREF_SINKS[callee]:
            return "%s() argument %d" % (callee, idx)
        if callee in PRINTF:
            fi = PRINTF[callee]
            fmt = args[fi].string_value() if fi < len(args) else None
            if fmt is not None and idx > fi:
                convs = parse_format(fmt)
                k = 0
                ai = fi + 1
                for conv, width, prec in convs:
                    if width == "*":
                        ai += 1
                    if prec == "*":
                        ai += 1
                    if ai == idx:
                        return "%s() %%%s argument" % (callee, conv) if conv == "s" else None
                    ai += 1
            return None
        if callee in repo_sinks and idx in repo_sinks[callee]:
            return "%s() argument %d (dereferenced there unconditionally)" % (callee, idx)
    return None


def repo_deref_params(prog):
    """{function: [param indices dereferenced without a NULL test]} for lib functions taking char* parameters
    (computed: the parameter's first use in the body is a sink and no path tests it)."""
    out = {}
    for f in prog.lib_functions():
        idxs = []
        for i, p in enumerate(f.params):
            if p.get("ct") not in ("char *", "const char *"):
                continue
            name = p["name"]
            cfg = f.cfg
            bad = False
            for n in f.walk():
                if n.k == "DeclRefExpr" and n.j.get("name") == name and n.j.get("dk") == "param":
                    s = sink_of(n, prog, {})
                    if s is None:
                        continue
                    wp = cfg.feasible_reach(cfg.block_of(n), lambda lit, b, ii: lit is not None and lit.kind == "truth" and lit.atom == name and lit.pol,
                                            lambda a: a == name)
                    if wp is not None:
                        bad = True
                        break
            if bad:
                idxs.append(i)
        if idxs:
            out[f.name] = idxs
    return out


class NullUse:
    def __init__(self, fn, node, access, sink, guarded, path, via=None):
        self.fn, self.node, self.access, self.sink, self.guarded, self.path, self.via = fn, node, access, sink, guarded, path, via

    @property
    def key(self):
        return "%s:%s:%s" % (self.fn.name, self.access if self.via is None else "%s<-%s" % (self.via, self.access), self.sink.split(" ")[0])


def analyse(prog, functions):
    nf = nullable_fields(prog)
    repo_sinks = repo_deref_params(prog)
    out = []
    for f in functions:
        cfg = f.cfg
        rd = None
        # direct reads
        reads = [n for n in f.walk() if n.k == "MemberExpr" and (n.j.get("rec"), n.j.get("member")) in nf]
        for n in reads:
            acc = render(n)
            s = sink_of(n, prog, repo_sinks)
            if s is not None:
                wp = cfg.feasible_reach(cfg.block_of(n), lambda lit, b, i: lit is not None and lit.kind == "truth" and lit.atom == acc and lit.pol,
                                        lambda a: a == acc)
                out.append(NullUse(f, n, acc, s, wp is None, cfg.describe_path(wp)[-6:] if wp else []))
        # locals assigned from a nullable field
        for lhs, rhs, st in f.assignments():
            r = rhs.strip()
            if not (r.k == "MemberExpr" and (r.j.get("rec"), r.j.get("member")) in nf):
                continue
            v = lhs["name"] if isinstance(lhs, dict) else (lhs.strip().j.get("name") if lhs.strip().k == "DeclRefExpr" else None)
            if v is None:
                continue
            acc = render(r)
            rd = rd or ReachingDefs(f)
            for u in f.walk():
                if u.k == "DeclRefExpr" and u.j.get("name") == v and u.j.get("dk") == "local":
                    s = sink_of(u, prog, repo_sinks)
                    if s is None:
                        continue
                    defs = rd.reaching(v, u)
                    if not any(d.node is st for d in defs):
                        continue
                    # guard: non-NULL test of the local after the assignment, or of the field before it
                    def guard(lit, b, i, v=v, acc=acc):
                        return lit is not None and lit.kind == "truth" and lit.pol and lit.atom in (v, acc)
                    # the field was tested before it was copied into the local (the copy sits inside `if (x->f != NULL ..)`): then the
                    # local is non-NULL wherever this definition reaches; otherwise a test must lie between the copy and the use
                    okd, cutd = cfg.all_paths_cut(cfg.block_of(st), lambda lit, b, i, acc=acc: lit is not None and lit.kind == "truth" and lit.pol and lit.atom == acc)
                    if okd and cutd:
                        wp = None
                    else:
                        pos = cfg.index_of(st)
                        sb_, si_ = (pos if isinstance(pos, tuple) else (cfg.block_of(st), 0))
                        wp = cfg.feasible_reach(cfg.block_of(u), guard, lambda a, v=v, acc=acc: a in (v, acc), start=sb_, start_index=si_ + 1) if sb_ is not None else \
                            cfg.feasible_reach(cfg.block_of(u), guard, lambda a, v=v, acc=acc: a in (v, acc))
                    out.append(NullUse(f, u, acc, s, wp is None, cfg.describe_path(wp)[-6:] if wp else [], via=v))
        # locals that receive the result of a routine for which NULL is the ordinary "no more / not found" answer
        for lhs, rhs, st in f.assignments():
            if rhs is None:
                continue
            r = rhs.strip()
            while r.k in ("ImplicitCastExpr", "ParenExpr", "CStyleCastExpr") and r.children:
                r = r.children[0].strip()
            if not (r.k == "CallExpr" and r.j.get("callee") in NULL_ANSWERS):
                continue
            v = lhs["name"] if isinstance(lhs, dict) else (lhs.strip().j.get("name") if lhs.strip().k == "DeclRefExpr" else None)
            if v is None:
                continue
            acc = "%s(...)" % r.j["callee"]
            rd = rd or ReachingDefs(f)
            sb = cfg.block_of(st)
            si = cfg.index_of(st)
            if sb is None or si is None:
                continue
            for u in f.walk():
                if u.k == "DeclRefExpr" and u.j.get("name") == v and u.j.get("dk") in ("local", "param"):
                    s2 = sink_of(u, prog, repo_sinks)
                    if s2 is None:
                        continue
                    defs = rd.reaching(v, u)
                    if not any(d.node is st for d in defs):
                        continue

                    # another value is put in its place on the way (`if (end == NULL) end = begin + strlen(begin);`)
                    redef = set(cfg.block_of(s9) for l9, r9, s9, k9 in query.stores(f) if s9 is not st and k9 == "=" and render(l9) == v and r9 is not None
                                and not r9.is_null_const() and not (r9.strip().k == "CallExpr" and r9.strip().j.get("callee") in NULL_ANSWERS)
                                and cfg.block_of(s9) != cfg.block_of(u))
                    succ9 = {(b9, i9): t9 for (b9, i9, t9) in cfg.edges()}

                    def guard(lit, b, i, v=v, redef=redef, succ9=succ9):
                        if succ9.get((b, i)) in redef:
                            return True
                        return lit is not None and lit.kind == "truth" and lit.pol and lit.atom == v
                    # implied by the assignment being the loop / if condition itself: (v = f(..)) != NULL
                    wp = cfg.feasible_reach(cfg.block_of(u), lambda lit, b, i, v=v: guard(lit, b, i) or (
                        lit is not None and lit.pol and lit.kind == "truth" and lit.node is not None and lit.node.k == "BinaryOperator"
                        and lit.node.j.get("op") == "=" and render(lit.node.children[0]) == v), lambda a, v=v: a == v,
                        start=sb, start_index=(si[1] if isinstance(si, tuple) else si) + 1,
                        nonempty=(cfg.block_of(u) == sb and (cfg.index_of(u) or (0, 0))[1] <= (si[1] if isinstance(si, tuple) else si)))
                    out.append(NullUse(f, u, acc, s2, wp is None, cfg.describe_path(wp)[-6:] if wp else [], via=v))
    return nf, out
