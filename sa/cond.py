"""Normalisation of branch conditions into literals (atom, polarity).

  !x              -> flip(x)
  a != b          -> flip(a == b)
  x == NULL / 0   -> (x, False)          x != 0 -> (x, True)
  a == b          -> ("a == b" with operands ordered, True)
  a > b           -> (b < a, True);  a >= b -> (a < b, False);  a <= b -> (b < a, False)
  anything else   -> (render, True)

Atoms are compared as canonical text (sa.ast.render)."""
from .ast import render


class Lit:
    __slots__ = ("atom", "pol", "node", "kind", "lhs", "rhs")

    def __init__(self, atom, pol, node, kind="truth", lhs=None, rhs=None):
        self.atom = atom
        self.pol = pol
        self.node = node      # the atom's expression node
        self.kind = kind      # truth | eq | lt
        self.lhs = lhs
        self.rhs = rhs

    def negated(self):
        return Lit(self.atom, not self.pol, self.node, self.kind, self.lhs, self.rhs)

    def key(self):
        return (self.atom, self.pol)

    def __eq__(self, o):
        return isinstance(o, Lit) and self.key() == o.key()

    def __hash__(self):
        return hash(self.key())

    def __str__(self):
        return self.atom if self.pol else "!(%s)" % self.atom

    __repr__ = __str__


def _is_zero(n):
    if n.is_null_const():
        return True
    s = n.strip()
    if s.k in ("IntegerLiteral", "CharacterLiteral") and s.j.get("val") == 0:
        return True
    if s.k == "DeclRefExpr" and s.j.get("dk") == "enum" and s.j.get("val") == 0:
        return True     # ECONF_SUCCESS
    return False


def _is_false_const(n):
    # 'false' from <stdbool.h> is the integer literal 0 through a macro
    s = n.strip()
    return s.k == "IntegerLiteral" and s.j.get("val") == 0


def _is_true_const(n):
    s = n.strip()
    return s.k == "IntegerLiteral" and s.j.get("val") == 1 and s.j.get("mac") in ("true",)


def norm_cond(n, tail=False):
    """tail=True: n is the terminator condition clang reports for a block.  For `if (A && B)`
    the block that evaluates B has the IfStmt as terminator and clang reports the *whole*
    `A && B` as its condition, although the branch is decided by the last operand evaluated
    there - so descend to the right operand of logical operators."""
    s = n.strip()
    if tail and s.k == "BinaryOperator" and s.j.get("op") in ("&&", "||"):
        return norm_cond(s.children[1], tail)
    if s.k == "UnaryOperator" and s.j.get("op") == "!":
        return norm_cond(s.children[0], tail).negated()
    if s.k == "BinaryOperator" and s.j.get("op") == "=":
        # (v = f(...)) used as a condition: its value is v's new value
        return norm_cond(s.children[0], tail)
    if s.k == "BinaryOperator":
        op = s.j.get("op")
        a, b = s.children[0], s.children[1]
        if op in ("==", "!="):
            lit = None
            if _is_zero(b):
                lit = norm_cond(a).negated()
            elif _is_zero(a):
                lit = norm_cond(b).negated()
            elif _is_true_const(b) and a.strip().j.get("ct") == "_Bool":
                lit = norm_cond(a)
            else:
                ra, rb = render(a), render(b)
                if rb < ra:
                    ra, rb, a, b = rb, ra, b, a
                lit = Lit("%s == %s" % (ra, rb), True, s, "eq", a, b)
            return lit.negated() if op == "!=" else lit
        if op in ("<", ">", "<=", ">="):
            if op == "<":
                l, r, pol = a, b, True
            elif op == ">":
                l, r, pol = b, a, True
            elif op == ">=":
                l, r, pol = a, b, False
            else:
                l, r, pol = b, a, False
            return Lit("%s < %s" % (render(l), render(r)), pol, s, "lt", l, r)
    return Lit(render(s), True, s, "truth")


def eval_str_cases(e, pname):
    """Truth of the pure condition e for a string parameter `pname` in three cases: 'null' (p == NULL),
    'empty' (p != NULL, *p == 0), 'text' (p != NULL, *p != 0).  Returns {case: True/False} or None when e uses
    anything else.  Evaluating *p with p == NULL raises (the condition dereferences NULL): reported as 'deref'."""
    class Deref(Exception):
        pass

    class Unknown(Exception):
        pass

    def is_p(n):
        n = n.strip()
        return n.k == "DeclRefExpr" and n.j.get("name") == pname

    def ev(n, case):
        n = n.strip()
        if n.is_null_const():
            return 0
        cv = n.const_value()
        if cv is not None:
            return cv
        if is_p(n):
            return 0 if case == "null" else 1
        if (n.k == "UnaryOperator" and n.j.get("op") == "*" and is_p(n.children[0])) or \
           (n.k == "ArraySubscriptExpr" and is_p(n.children[0]) and n.children[1].const_value() == 0):
            if case == "null":
                raise Deref()
            return 0 if case == "empty" else 65
        if n.k == "CallExpr" and n.j.get("callee") == "strlen" and len(n.call_args()) == 1 and is_p(n.call_args()[0]):
            if case == "null":
                raise Deref()
            return 0 if case == "empty" else 3
        if n.k == "UnaryOperator" and n.j.get("op") == "!":
            return 0 if ev(n.children[0], case) else 1
        if n.k == "BinaryOperator":
            op = n.j.get("op")
            if op == "&&":
                return 1 if (ev(n.children[0], case) and ev(n.children[1], case)) else 0
            if op == "||":
                return 1 if (ev(n.children[0], case) or ev(n.children[1], case)) else 0
            if op in ("==", "!=", "<", ">", "<=", ">="):
                a, b = ev(n.children[0], case), ev(n.children[1], case)
                if (a > 3 or b > 3) and not (a == 0 or b == 0):
                    raise Unknown()     # comparing the text character with a specific value
                return int({"==": a == b, "!=": a != b, "<": a < b, ">": a > b, "<=": a <= b, ">=": a >= b}[op])
        raise Unknown()
    out = {}
    for case in ("null", "empty", "text"):
        try:
            out[case] = bool(ev(e, case))
        except Deref:
            out[case] = "deref"
        except Unknown:
            return None
    return out
