"""E-cfg: clang's CFG (built with setAllAlwaysAdd, no pruning) per function: dominance,
reachability with forbidden edges/blocks, edge literals (normalised branch conditions),
natural loops.  No solver: all questions are set membership / graph reachability."""
from .ast import render
from .cond import norm_cond, Lit


class Block:
    __slots__ = ("id", "elems", "term", "cond", "succs", "preds", "label", "looptarget", "termk")

    def __init__(self, j, fn):
        self.id = j["id"]
        self.elems = [fn.nodes[i] for i in j.get("elems", []) if i >= 0]
        t = j.get("term", -1)
        self.term = fn.nodes[t] if t is not None and t >= 0 else None
        self.termk = j.get("termk")
        c = j.get("cond", -1)
        self.cond = fn.nodes[c] if c is not None and c >= 0 else None
        self.succs = [s for s in j.get("succs", [])]
        self.preds = []
        l = j.get("label", -1)
        self.label = fn.nodes[l] if l is not None and l >= 0 else None
        lt = j.get("looptarget", -1)
        self.looptarget = fn.nodes[lt] if lt is not None and lt >= 0 else None

    def __repr__(self):
        return "<B%d>" % self.id


class CFG:
    def __init__(self, fn):
        self.fn = fn
        j = fn.j.get("cfg")
        if j is None:
            from .facts import Inconclusive
            raise Inconclusive("no CFG for %s" % fn.name)
        self.blocks = {b["id"]: Block(b, fn) for b in j["blocks"]}
        self.entry = j["entry"]
        self.exit = j["exit"]
        for b in self.blocks.values():
            for s in b.succs:
                if s is not None:
                    self.blocks[s].preds.append(b.id)
        self.pos = {}   # node id -> (block id, index)
        for b in self.blocks.values():
            for i, n in enumerate(b.elems):
                self.pos.setdefault(n.id, (b.id, i))
        self._dom = None
        self._pdom = None
        self._lits = {}

    # ---- locating nodes ------------------------------------------------------------------
    def block_of(self, node):
        """Block in which the node is evaluated (the node itself or its nearest ancestor /
        descendant that is a CFG element)."""
        p = self.index_of(node)
        return p[0] if p is not None else None

    def index_of(self, node):
        n = node
        while n is not None:
            if n.id in self.pos:
                return self.pos[n.id]
            if n.k in ("WhileStmt", "ForStmt", "DoStmt", "IfStmt", "CompoundStmt", "SwitchStmt"):
                break
            n = n.parent
        # jump statements (break / continue / goto) are terminators, not elements
        if node.k in ("BreakStmt", "ContinueStmt", "GotoStmt"):
            for b in self.blocks.values():
                if b.term is node:
                    return (b.id, len(b.elems))
        # a condition / wrapper expression that is not an element itself: the last of its sub-expressions that is
        best = None
        for d in node.walk():
            if d.id in self.pos:
                p = self.pos[d.id]
                if best is None or p[0] == best[0] and p[1] > best[1]:
                    best = p
        if best is not None:
            return best
        n = node.parent
        while n is not None:
            if n.id in self.pos:
                return self.pos[n.id]
            n = n.parent
        return None

    # ---- edges -----------------------------------------------------------------------------
    def edges(self):
        for b in self.blocks.values():
            for i, s in enumerate(b.succs):
                if s is not None:
                    yield (b.id, i, s)

    def edge_lit(self, bid, idx):
        """Literal that holds when edge idx of block bid is taken (None for unconditional
        edges or switch edges)."""
        key = (bid, idx)
        if key in self._lits:
            return self._lits[key]
        b = self.blocks[bid]
        lit = None
        if b.cond is not None and len(b.succs) == 2 and b.termk != "SwitchStmt":
            # when the terminator is the logical operator itself clang reports its LHS;
            # otherwise (IfStmt, loops, ?:) the reported condition may be a whole `A && B`
            base = norm_cond(b.cond, tail=True)
            lit = base if idx == 0 else base.negated()
        self._lits[key] = lit
        return lit

    # ---- reachability ----------------------------------------------------------------------
    def reachable(self, start, avoid_blocks=(), avoid_edges=(), forward=True):
        """Set of blocks reachable from start (start included) without entering avoid_blocks
        or using avoid_edges ((block, idx) pairs)."""
        avoid_blocks = set(avoid_blocks)
        avoid_edges = set(avoid_edges)
        seen = set()
        if start in avoid_blocks:
            return seen
        stack = [start]
        seen.add(start)
        while stack:
            b = stack.pop()
            blk = self.blocks[b]
            if forward:
                for i, s in enumerate(blk.succs):
                    if s is None or (b, i) in avoid_edges or s in avoid_blocks or s in seen:
                        continue
                    seen.add(s)
                    stack.append(s)
            else:
                for p in blk.preds:
                    if p in avoid_blocks or p in seen:
                        continue
                    # edge indices p->b
                    ok = any(s == b and (p, i) not in avoid_edges for i, s in enumerate(self.blocks[p].succs))
                    if not ok:
                        continue
                    seen.add(p)
                    stack.append(p)
        return seen

    def all_paths_cut(self, target_block, edge_pred, start=None, consistent=True):
        """True iff every (consistent) path from start (default entry) to target_block uses at least one
        edge for which edge_pred(lit, bid, idx) holds.  consistent: paths whose literals on plain
        variables contradict each other (or contradict a constant just assigned to the variable, also through
        a copy `a = b`) do not count - this is what makes `err = helper(); if (err) return err;` transparent."""
        start = self.entry if start is None else start
        cut = set()
        for (b, i, s) in self.edges():
            lit = self.edge_lit(b, i)
            if edge_pred(lit, b, i):
                cut.add((b, i))
        if target_block not in self.reachable(start, avoid_edges=cut):
            return True, cut
        if not consistent:
            return False, cut
        import re as _re
        wp = self.feasible_reach(target_block, lambda lit, b, i: (b, i) in cut, lambda a: _re.match(r"^[A-Za-z_][\w$.]*$", a) is not None, start=start)
        return wp is None, cut

    def feasible_reach(self, target_block, cut_pred, track, start=None):
        """Is target_block reachable from start without using an edge for which cut_pred holds,
        along a path whose literals on the tracked atoms are not contradictory?  `track` is a
        predicate on atoms.  Facts are killed by stores to a variable the atom mentions.
        Returns a witness [(block, idx)] or None."""
        from . import query
        start = self.entry if start is None else start
        kills = {}
        for b in self.blocks.values():
            names = set()
            for n in b.elems:
                if n.k == "BinaryOperator" and n.j.get("op") == "=":
                    names.add(render(n.children[0]))
                elif n.k in ("CompoundAssignOperator",) or (n.k == "UnaryOperator" and n.j.get("op") in ("++", "--")):
                    names.add(render(n.children[0]))
            kills[b.id] = names
        init = (start, frozenset())
        prev = {init: None}
        queue = [init]
        while queue:
            cur = queue.pop(0)
            b, facts = cur
            if b == target_block:
                path = []
                while prev[cur] is not None:
                    path.append(prev[cur][1])
                    cur = prev[cur][0]
                path.reverse()
                return path
            fd = dict(facts)
            for nm in kills[b]:
                for a in list(fd):
                    if nm and nm in a:
                        del fd[a]
            # constant assignments to tracked flag variables establish facts (new_key = false; ...)
            for n in self.blocks[b].elems:
                if n.k == "BinaryOperator" and n.j.get("op") == "=":
                    nm = render(n.children[0])
                    cv = n.children[1].const_value()
                    if cv is not None and track(nm) and n.children[0].strip().k == "DeclRefExpr":
                        fd[nm] = bool(cv)
                    elif cv is None and track(nm) and n.children[0].strip().k == "DeclRefExpr":
                        src = render(n.children[1])
                        if src in fd and n.children[1].strip().k == "DeclRefExpr":
                            fd[nm] = fd[src]          # copy: a = b
                elif n.k == "DeclStmt":
                    for d in n.j.get("decls", []):
                        if d.get("init", -1) >= 0 and track(d["name"]):
                            cv = self.fn.nodes[d["init"]].const_value()
                            if cv is not None:
                                fd[d["name"]] = bool(cv)
                            else:
                                fd.pop(d["name"], None)
            for i, s in enumerate(self.blocks[b].succs):
                if s is None:
                    continue
                lit = self.edge_lit(b, i)
                if cut_pred(lit, b, i):
                    continue
                nf = dict(fd)
                if lit is not None and track(lit.atom):
                    if lit.atom in nf and nf[lit.atom] != lit.pol:
                        continue            # contradictory path
                    nf[lit.atom] = lit.pol
                nxt = (s, frozenset(nf.items()))
                if nxt not in prev:
                    prev[nxt] = (cur, (b, i))
                    queue.append(nxt)
        return None

    def some_path_avoiding(self, target_block, edge_pred, start=None):
        ok, cut = self.all_paths_cut(target_block, edge_pred, start)
        return not ok

    def witness_path(self, target_block, avoid_edges=(), start=None, avoid_blocks=()):
        """One path (list of (block, edge idx)) from start to target avoiding the edges."""
        start = self.entry if start is None else start
        avoid_edges = set(avoid_edges)
        avoid_blocks = set(avoid_blocks)
        prev = {start: None}
        queue = [start]
        while queue:
            b = queue.pop(0)
            if b == target_block:
                break
            for i, s in enumerate(self.blocks[b].succs):
                if s is None or (b, i) in avoid_edges or s in prev or s in avoid_blocks:
                    continue
                prev[s] = (b, i)
                queue.append(s)
        if target_block not in prev:
            return None
        path = []
        cur = target_block
        while prev[cur] is not None:
            path.append(prev[cur])
            cur = prev[cur][0]
        path.reverse()
        return path

    def describe_path(self, path):
        out = []
        for (b, i) in path or []:
            lit = self.edge_lit(b, i)
            blk = self.blocks[b]
            if lit is not None and blk.cond is not None:
                out.append("%s: %s" % (blk.cond.where, lit))
        return out

    # ---- dominance ---------------------------------------------------------------------------
    def _compute_dom(self, forward=True):
        ids = list(self.blocks)
        root = self.entry if forward else self.exit
        reach = self.reachable(root, forward=forward)
        dom = {b: set(reach) for b in reach}
        dom[root] = {root}
        changed = True
        while changed:
            changed = False
            for b in reach:
                if b == root:
                    continue
                blk = self.blocks[b]
                ins = blk.preds if forward else [s for s in blk.succs if s is not None]
                ins = [p for p in ins if p in reach]
                if not ins:
                    new = {b}
                else:
                    new = set.intersection(*(dom[p] for p in ins)) | {b}
                if new != dom[b]:
                    dom[b] = new
                    changed = True
        return dom

    def dom(self):
        if self._dom is None:
            self._dom = self._compute_dom(True)
        return self._dom

    def pdom(self):
        if self._pdom is None:
            self._pdom = self._compute_dom(False)
        return self._pdom

    def dominates(self, a, b):
        """Block a dominates block b."""
        d = self.dom()
        return b in d and a in d[b]

    def node_dominates(self, na, nb):
        """Evaluation of node na dominates evaluation of node nb."""
        pa, pb = self.index_of(na), self.index_of(nb)
        if pa is None or pb is None:
            return False
        if pa[0] == pb[0]:
            return pa[1] <= pb[1]
        return self.dominates(pa[0], pb[0])

    def postdominates(self, a, b):
        d = self.pdom()
        return b in d and a in d[b]

    # ---- loops -----------------------------------------------------------------------------
    def back_edges(self):
        out = []
        for (b, i, s) in self.edges():
            if self.dominates(s, b):
                out.append((b, i, s))
        return out

    def natural_loop(self, head):
        """Blocks of the natural loop(s) with header head."""
        body = {head}
        for (b, i, s) in self.back_edges():
            if s != head:
                continue
            stack = [b]
            while stack:
                x = stack.pop()
                if x in body:
                    continue
                body.add(x)
                stack.extend(self.blocks[x].preds)
        return body

    def loop_heads(self):
        return sorted(set(s for (_, _, s) in self.back_edges()))

    def loop_branch(self, stmt):
        """block whose terminator is the loop statement (evaluates the last operand of the condition)"""
        for b in self.blocks.values():
            if b.term is stmt:
                return b.id
        return None

    def loop_header(self, stmt):
        """block where an iteration starts (target of the back edges): for `while (A && B)` the block
        evaluating A, not the one whose terminator is the while statement"""
        for b in self.blocks.values():
            if b.looptarget is stmt and b.succs and b.succs[0] is not None:
                return b.succs[0]
        br = self.loop_branch(stmt)
        if br is None:
            return None
        # no dedicated loop-back block: walk back through the condition's short-circuit blocks
        cond = stmt.child("cond")
        cur = br
        changed = True
        while changed and cond is not None:
            changed = False
            for p in self.blocks[cur].preds:
                pb = self.blocks[p]
                if pb.term is not None and pb.term.within(cond) and p != cur:
                    cur = p
                    changed = True
                    break
        return cur

    def loop_body_entry(self, stmt):
        br = self.loop_branch(stmt)
        if br is None:
            return None
        if stmt.k == "DoStmt":
            return self.loop_header(stmt)
        return self.blocks[br].succs[0]

    def loop_of_stmt(self, stmt):
        """(head block, body blocks) of the loop statement node (While/For/Do)."""
        for b in self.blocks.values():
            if b.term is stmt:
                if stmt.k == "DoStmt":
                    # the cond block ends the body; header = target of its true edge's loop-back
                    heads = [h for h in self.loop_heads() if b.id in self.natural_loop(h)]
                    for h in heads:
                        if any(bb == b.id or True for bb in [b.id]):
                            # choose the innermost loop containing b whose back edge leaves b (via loop-back block)
                            pass
                    best = None
                    for h in heads:
                        L = self.natural_loop(h)
                        if best is None or len(L) < len(best[1]):
                            best = (h, L)
                    return best
                return (b.id, self.natural_loop(b.id))
        return None

    def exit_blocks_returning(self):
        """Blocks that end in a return (predecessors of the exit block)."""
        return list(self.blocks[self.exit].preds)

    def return_of_block(self, bid):
        for n in reversed(self.blocks[bid].elems):
            if n.k == "ReturnStmt":
                return n
        return None
