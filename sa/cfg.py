"""E-cfg: clang's CFG (built with setAllAlwaysAdd, no pruning) per function: dominance,
reachability with forbidden edges/blocks, edge literals (normalised branch conditions),
natural loops.  No solver: all questions are set membership / graph reachability."""
from .ast import render
from .cond import norm_cond, Lit


import re as _re
_MENT = {}
PURE_CALLS = ("strcmp", "strncmp", "strcasecmp", "strncasecmp", "strlen", "memcmp", "strchr", "strrchr", "strstr", "strpbrk", "strspn", "strcspn",
              "isspace", "isdigit", "isalpha", "isalnum", "tolower", "toupper")



def _mentions(atom, name):
    """does the atom's text mention the variable / access path `name` as a whole token?"""
    if name not in atom:
        return False
    rx = _MENT.get(name)
    if rx is None:
        rx = _MENT[name] = _re.compile(r"(?<![\w$.>])" + _re.escape(name) + r"(?![\w$])")
    return rx.search(atom) is not None


class Block:
    __slots__ = ("id", "elems", "term", "cond", "succs", "preds", "label", "looptarget", "termk")

    def __init__(self, j, fn):
        self.id = j["id"]
        self.elems = [fn.nodes[i] for i in j.get("elems", []) if i >= 0]
        t = j.get("term", -1)
        self.term = fn.nodes[t] if t is not None and t >= 0 else None
        self.termk = j.get("termk")
        c = j.get("cond", -1)
        self.cond = fn.nodes[c] if c is not None and c >= 0 else None
        self.succs = [s for s in j.get("succs", [])]
        self.preds = []
        l = j.get("label", -1)
        self.label = fn.nodes[l] if l is not None and l >= 0 else None
        lt = j.get("looptarget", -1)
        self.looptarget = fn.nodes[lt] if lt is not None and lt >= 0 else None

    def __repr__(self):
        return "<B%d>" % self.id


class CFG:
    def __init__(self, fn):
        self.fn = fn
        j = fn.j.get("cfg")
        if j is None:
            from .facts import Inconclusive
            raise Inconclusive("no CFG for %s" % fn.name)
        self.blocks = {b["id"]: Block(b, fn) for b in j["blocks"]}
        self.entry = j["entry"]
        self.exit = j["exit"]
        self.pruned = set()     # ids of the nodes evaluated only in blocks that a constant switch never enters
        before = None
        for b in self.blocks.values():
            # switch (<constant>) - a tag substituted for the parameter of an inlined helper: only the matching case is entered
            if b.termk == "SwitchStmt" and b.cond is not None and isinstance(b.cond.const_value(), int):
                cv, match, rest, plain = b.cond.const_value(), None, [], True
                for k, s in enumerate(b.succs):
                    lab = self.blocks[s].label if s is not None else None
                    if lab is not None and lab.k == "CaseStmt":
                        vals = [c.const_value() for c in lab.children[:-1]]
                        if len(vals) != 1 or not isinstance(vals[0], int):
                            plain = False           # a case range or a label that is not understood
                        elif vals[0] == cv:
                            match = k
                    else:
                        rest.append(k)
                if plain and (match is not None or len(rest) == 1):
                    keep = match if match is not None else rest[0]
                    if before is None:
                        before = self.reachable(self.entry)
                    b.succs = [s if k == keep else None for k, s in enumerate(b.succs)]
        if before is not None:
            after = self.reachable(self.entry)
            for bid in before - after:
                blk = self.blocks[bid]
                self.pruned.update(n.id for n in blk.elems)
                if blk.term is not None and blk.term.k in ("BreakStmt", "ContinueStmt", "GotoStmt", "ReturnStmt"):
                    self.pruned.add(blk.term.id)
        for b in self.blocks.values():
            for s in b.succs:
                if s is not None:
                    self.blocks[s].preds.append(b.id)
        self.pos = {}   # node id -> (block id, index)
        for b in self.blocks.values():
            for i, n in enumerate(b.elems):
                self.pos.setdefault(n.id, (b.id, i))
        self._dom = None
        self._pdom = None
        self._lits = {}

    # ---- locating nodes ------------------------------------------------------------------
    def block_of(self, node):
        """Block in which the node is evaluated (the node itself or its nearest ancestor /
        descendant that is a CFG element)."""
        p = self.index_of(node)
        return p[0] if p is not None else None

    def index_of(self, node):
        n = node
        while n is not None:
            if n.id in self.pos:
                return self.pos[n.id]
            if n.k in ("WhileStmt", "ForStmt", "DoStmt", "IfStmt", "CompoundStmt", "SwitchStmt"):
                break
            n = n.parent
        # jump statements (break / continue / goto) are terminators, not elements
        if node.k in ("BreakStmt", "ContinueStmt", "GotoStmt"):
            for b in self.blocks.values():
                if b.term is node:
                    return (b.id, len(b.elems))
        # a condition / wrapper expression that is not an element itself: the last of its sub-expressions that is
        best = None
        for d in node.walk():
            if d.id in self.pos:
                p = self.pos[d.id]
                if best is None or p[0] == best[0] and p[1] > best[1]:
                    best = p
        if best is not None:
            return best
        n = node.parent
        while n is not None:
            if n.id in self.pos:
                return self.pos[n.id]
            n = n.parent
        return None

    # ---- edges -----------------------------------------------------------------------------
    def edges(self):
        for b in self.blocks.values():
            for i, s in enumerate(b.succs):
                if s is not None:
                    yield (b.id, i, s)

    def edge_lit(self, bid, idx):
        """Literal that holds when edge idx of block bid is taken (None for unconditional
        edges or switch edges)."""
        key = (bid, idx)
        if key in self._lits:
            return self._lits[key]
        b = self.blocks[bid]
        lit = None
        if b.cond is not None and len(b.succs) == 2 and b.termk != "SwitchStmt":
            # when the terminator is the logical operator itself clang reports its LHS;
            # otherwise (IfStmt, loops, ?:) the reported condition may be a whole `A && B`
            base = norm_cond(b.cond, tail=True)
            base = self._expand_flag(base, bid)
            lit = base if idx == 0 else base.negated()
        self._lits[key] = lit
        return lit

    def implied_lits(self, bid, idx):
        """further literals that hold on this edge because the tested local is a flag with a compound definition:
        `flag = A || B; if (!flag)` implies !A and !B; `flag = A && B; if (flag)` implies A and B."""
        key = ("impl", bid, idx)
        if key in self._lits:
            return self._lits[key]
        out = []
        b = self.blocks[bid]
        if b.cond is not None and len(b.succs) == 2 and b.termk != "SwitchStmt":
            base = norm_cond(b.cond, tail=True)
            lit = base if idx == 0 else base.negated()
            if lit.kind == "truth" and lit.node.k == "DeclRefExpr" and lit.node.j.get("dk") == "local":
                rhs = self._flag_def(lit.node.j["name"], bid)
                if rhs is not None:
                    r = rhs.strip()
                    op = "&&" if lit.pol else "||"

                    def parts(e):
                        e2 = e.strip()
                        if e2.k == "BinaryOperator" and e2.j.get("op") == op:
                            return parts(e2.children[0]) + parts(e2.children[1])
                        return [e2]
                    ps = parts(r)
                    if len(ps) > 1:
                        for x in ps:
                            l2 = norm_cond(x)
                            out.append(l2 if lit.pol else l2.negated())
        self._lits[key] = out
        return out

    def _flag_def(self, v, bid):
        """the defining expression of flag local v when it has exactly one definition, a pure boolean expression whose operands
        are not changed between the definition and the test in block bid; else None"""
        self._flag_tables()
        d, spoiled = self._flagdefs
        if v in spoiled or len(d.get(v, [])) != 1:
            return None
        rhs, st = d[v][0]
        r = rhs.strip()
        if any(x.k == "CallExpr" and x.j.get("callee") not in PURE_CALLS for x in r.walk()):
            return None
        if any(x.k in ("CompoundAssignOperator",) or (x.k == "UnaryOperator" and x.j.get("op") in ("++", "--")) or
               (x.k == "BinaryOperator" and x.j.get("op") == "=") for x in r.walk()):
            return None
        db = self.block_of(st)
        if db is not None and db != bid:
            from . import query
            names = set(x.j["name"] for x in r.walk() if x.k == "DeclRefExpr" and x.j.get("dk") in ("local", "param"))
            after = set()
            for s2 in self.blocks[db].succs:
                if s2 is not None:
                    after |= self.reachable(s2, avoid_blocks=[db])
            before = self.reachable(bid, avoid_blocks=[db], forward=False)
            for b2 in (after & before) | {bid}:
                for n in self.blocks[b2].elems:
                    t = None
                    if n.k == "BinaryOperator" and n.j.get("op") == "=":
                        t = n.children[0]
                    elif n.k == "CompoundAssignOperator" or (n.k == "UnaryOperator" and n.j.get("op") in ("++", "--")):
                        t = n.children[0]
                    if t is not None:
                        root, _sel = query.lvalue_root(t)
                        if root is not None and root.j.get("name") in names and render(t) in [render(x) for x in r.walk() if x.is_expr()]:
                            return None
        return rhs

    def _flag_tables(self):
        if hasattr(self, "_flagdefs"):
            return
        d, spoiled = {}, set()
        for n in self.fn.walk():
            if n.k == "DeclStmt":
                for dd in n.j.get("decls", []):
                    if dd.get("init", -1) >= 0:
                        d.setdefault(dd["name"], []).append((self.fn.nodes[dd["init"]], n))
            elif n.k == "BinaryOperator" and n.j.get("op") == "=" and n.children[0].strip().k == "DeclRefExpr":
                d.setdefault(n.children[0].strip().j["name"], []).append((n.children[1], n))
            elif n.k == "CompoundAssignOperator" or (n.k == "UnaryOperator" and n.j.get("op") in ("++", "--", "&")):
                t = n.children[0].strip()
                if t.k == "DeclRefExpr":
                    spoiled.add(t.j["name"])
        self._flagdefs = (d, spoiled)

    def _expand_flag(self, lit, bid):
        """`flag = a == b; ... if (flag)`: the test of a local that has exactly one definition, an atomic pure
        comparison whose operands are not changed between the definition and the test, IS that comparison."""
        if lit.kind != "truth" or lit.node.k != "DeclRefExpr" or lit.node.j.get("dk") != "local":
            return lit
        v = lit.node.j["name"]
        self._flag_tables()
        d, spoiled = self._flagdefs
        if v in spoiled or len(d.get(v, [])) != 1:
            return lit
        rhs, st = d[v][0]
        r = rhs.strip()
        inner = r
        while inner.k == "UnaryOperator" and inner.j.get("op") == "!":
            inner = inner.children[0].strip()
        atomic = inner.k == "BinaryOperator" and inner.j.get("op") in ("==", "!=", "<", ">", "<=", ">=")
        if not atomic or any(x.k == "CallExpr" and x.j.get("callee") not in PURE_CALLS for x in r.walk()):
            return lit
        db = self.block_of(st)
        if db is None or db == bid:
            pass
        else:
            names = set(x.j["name"] for x in r.walk() if x.k == "DeclRefExpr" and x.j.get("dk") in ("local", "param"))
            after = set()
            for s2 in self.blocks[db].succs:
                if s2 is not None:
                    after |= self.reachable(s2, avoid_blocks=[db])
            before = self.reachable(bid, avoid_blocks=[db], forward=False)
            between = (after & before) | {bid}
            for b2 in between:
                for n in self.blocks[b2].elems:
                    t = None
                    if n.k == "BinaryOperator" and n.j.get("op") == "=":
                        t = n.children[0]
                    elif n.k == "CompoundAssignOperator" or (n.k == "UnaryOperator" and n.j.get("op") in ("++", "--")):
                        t = n.children[0]
                    if t is not None:
                        from . import query
                        root, _sel = query.lvalue_root(t)
                        if root is not None and root.j.get("name") in names:
                            return lit
        inner_lit = norm_cond(r)
        return inner_lit if lit.pol else inner_lit.negated()

    # ---- reachability ----------------------------------------------------------------------
    def reachable(self, start, avoid_blocks=(), avoid_edges=(), forward=True):
        """Set of blocks reachable from start (start included) without entering avoid_blocks
        or using avoid_edges ((block, idx) pairs)."""
        avoid_blocks = set(avoid_blocks)
        avoid_edges = set(avoid_edges)
        seen = set()
        if start in avoid_blocks:
            return seen
        stack = [start]
        seen.add(start)
        while stack:
            b = stack.pop()
            blk = self.blocks[b]
            if forward:
                for i, s in enumerate(blk.succs):
                    if s is None or (b, i) in avoid_edges or s in avoid_blocks or s in seen:
                        continue
                    seen.add(s)
                    stack.append(s)
            else:
                for p in blk.preds:
                    if p in avoid_blocks or p in seen:
                        continue
                    # edge indices p->b
                    ok = any(s == b and (p, i) not in avoid_edges for i, s in enumerate(self.blocks[p].succs))
                    if not ok:
                        continue
                    seen.add(p)
                    stack.append(p)
        return seen

    def all_paths_cut(self, target_block, edge_pred, start=None, consistent=True):
        """True iff every (consistent) path from start (default entry) to target_block uses at least one
        edge for which edge_pred(lit, bid, idx) holds.  consistent: paths whose literals on plain
        variables contradict each other (or contradict a constant just assigned to the variable, also through
        a copy `a = b`) do not count - this is what makes `err = helper(); if (err) return err;` transparent."""
        start = self.entry if start is None else start
        cut = set()
        for (b, i, s) in self.edges():
            lit = self.edge_lit(b, i)
            if edge_pred(lit, b, i) or any(edge_pred(l2, b, i) for l2 in self.implied_lits(b, i)):
                cut.add((b, i))
        if target_block not in self.reachable(start, avoid_edges=cut):
            return True, cut
        if not consistent:
            return False, cut
        import re as _re
        wp = self.feasible_reach(target_block, lambda lit, b, i: (b, i) in cut, lambda a: _re.match(r"^\*?[A-Za-z_][\w$.]*$", a) is not None, start=start)
        return wp is None, cut

    def success_path_avoiding(self, cut_pred, start=None, struct_returns=False):
        """A consistent path from the entry to a return that may deliver 0 / ECONF_SUCCESS, not using any edge for
        which cut_pred holds - or None when every way to success uses such an edge.  A returned variable is
        followed through constant assignments and copies (an unknown value may be a success)."""
        from . import query

        def accept(b, fd):
            for n in self.blocks[b].elems:
                if n.k == "ReturnStmt" and not n.j.get("inlined_return"):
                    c = query.returned_constant(n)
                    if c is not None:
                        return c in (0, "ECONF_SUCCESS")
                    if not n.children:
                        return True
                    nm = render(n.children[0])
                    if fd.get(nm) is True:
                        return False            # tested non-zero on this path
                    v = fd.get("=" + nm)
                    return v is None or v == 0
            return False
        return self.feasible_reach(None, cut_pred, lambda a: True, accept=accept, start=start)

    def every_round_passes(self, hb, sb):
        """does every way round the loop with header hb (from the header back to it, inside the loop) pass block sb?"""
        body = self.natural_loop(hb)
        if sb not in body:
            return False
        outside = [b for b in self.blocks if b not in body]
        entries = [s2 for (b, i, s2) in self.edges() if b == hb and s2 in body and s2 != hb]
        return bool(entries) and all(be == sb or hb not in self.reachable(be, avoid_blocks=[sb] + outside) for be in entries)

    def returned_values_from(self, start, init_facts=None):
        """Values returned on the consistent paths that start in block `start` (its own assignments included):
        integers (enumerators by value), None for a value that is not a known constant."""
        from . import query
        vals = set()

        def accept(b, fd):
            for n in self.blocks[b].elems:
                if n.k == "ReturnStmt" and not n.j.get("inlined_return"):
                    if not n.children:
                        vals.add(None)
                    else:
                        e = n.children[0]
                        cv = e.const_value()
                        vals.add(cv if cv is not None else fd.get("=" + render(e)))
            return False
        self.feasible_reach(None, lambda lit, b, i: False, lambda a: True, start=start, accept=accept, init_facts=init_facts)
        return vals

    def values_at_return(self, ret, init_facts=None):
        """the values a particular `return <variable>` can deliver, over the consistent paths from the entry (None = unknown;
        ("str", text) for a string literal)"""
        rb = self.block_of(ret)
        vals = set()
        if not ret.children:
            return {None}
        e = ret.children[0]
        if e.const_value() is not None:
            return {e.const_value()}
        if e.string_value() is not None:
            return {("str", e.string_value())} if init_facts is None or self.feasible_reach(rb, lambda lit, b, i: False, lambda a: True, init_facts=init_facts) else set()
        nm = render(e)

        def accept(b, fd):
            if b == rb:
                vals.add(fd.get("=" + nm))
            return False
        self.feasible_reach(None, lambda lit, b, i: False, lambda a: True, accept=accept, init_facts=init_facts)
        return vals

    def success_cut(self, pred):
        return self.success_path_avoiding(lambda lit, b, i: pred(lit, b, i)) is None

    def feasible_reach(self, target_block, cut_pred, track, start=None, nonempty=False, accept=None, init_facts=None, start_index=0):
        """Is target_block reachable from start without using an edge for which cut_pred holds,
        along a path whose literals on the tracked atoms are not contradictory?  `track` is a
        predicate on atoms.  Facts are killed by stores to a variable the atom mentions.
        Returns a witness [(block, idx)] or None."""
        from . import query
        start = self.entry if start is None else start
        kills = {}
        for b in self.blocks.values():
            names = set()
            for n in b.elems:
                if n.k == "BinaryOperator" and n.j.get("op") == "=":
                    names.add(render(n.children[0]))
                elif n.k in ("CompoundAssignOperator",) or (n.k == "UnaryOperator" and n.j.get("op") in ("++", "--")):
                    names.add(render(n.children[0]))
                elif n.k == "CallExpr":
                    # f(&x): the callee may store into x
                    for a in n.call_args():
                        a0 = a.strip()
                        if a0.k == "UnaryOperator" and a0.j.get("op") == "&":
                            names.add(render(a0.children[0]))
            kills[b.id] = names
        init = (start, frozenset((init_facts or {}).items()))
        prev = {init: None}
        queue = [init]
        budget = 400000
        while queue:
            cur = queue.pop(0)
            budget -= 1
            if budget < 0:
                from .facts import Inconclusive
                raise Inconclusive("%s: path exploration budget exceeded (too many distinct fact sets)" % self.fn.name)
            b, facts = cur
            if accept is None and b == target_block and not (nonempty and cur is init):
                path = []
                while prev[cur] is not None:
                    path.append(prev[cur][1])
                    cur = prev[cur][0]
                path.reverse()
                return path
            fd = dict(facts)
            facts_before = dict(facts)
            first = cur is init and start_index > 0
            # the elements of the block in order: a store (or a call that is handed &x) first kills what was known about the
            # variable, a constant assignment then establishes a fact (new_key = false; ...)
            for n in (self.blocks[b].elems[start_index:] if first else self.blocks[b].elems):
                knames = []
                if n.k == "BinaryOperator" and n.j.get("op") == "=":
                    knames.append(render(n.children[0]))
                elif n.k in ("CompoundAssignOperator",) or (n.k == "UnaryOperator" and n.j.get("op") in ("++", "--")):
                    knames.append(render(n.children[0]))
                elif n.k == "CallExpr":
                    for a9 in n.call_args():
                        a0 = a9.strip()
                        if a0.k == "UnaryOperator" and a0.j.get("op") == "&":
                            knames.append(render(a0.children[0]))
                if n.k == "CallExpr" and n.j.get("callee") not in ("__errno_location", None) and n.j.get("callee") not in PURE_CALLS:
                    # any routine may set errno: what was known about it (errno = 0 before a conversion) is gone after the call
                    for a in list(fd):
                        if "__errno_location" in a:
                            del fd[a]
                stepped = None
                if n.k == "UnaryOperator" and n.j.get("op") in ("++", "--") and knames and isinstance(fd.get("=" + knames[0]), int) and track(knames[0]):
                    stepped = (knames[0], fd["=" + knames[0]] + (1 if n.j["op"] == "++" else -1))
                for nm in knames:
                    for a in list(fd):
                        if nm and _mentions(a, nm):
                            del fd[a]
                if stepped is not None and (not (-2 <= stepped[1] <= 4) or any(a9.k in ("ForStmt", "WhileStmt", "DoStmt") for a9 in n.ancestors())):
                    stepped = None                          # a counter stepped in a loop is not followed (the exploration would not end)
                if stepped is not None:
                    fd["=" + stepped[0]] = stepped[1]       # x++ / x-- on a known value
                    fd[stepped[0]] = bool(stepped[1])
                if n.k == "BinaryOperator" and n.j.get("op") == "=":
                    nm = render(n.children[0])
                    cv = n.children[1].const_value()
                    if cv is not None and track(nm) and n.children[0].strip().k == "DeclRefExpr":
                        fd[nm] = bool(cv)
                        fd["=" + nm] = cv
                    elif cv is None and track(nm) and n.children[0].strip().k == "DeclRefExpr" and n.children[1].string_value() is not None:
                        fd[nm] = True             # p = "text": not NULL
                        fd["=" + nm] = ("str", n.children[1].string_value())
                    elif cv is None and track(nm) and n.children[0].strip().k == "DeclRefExpr":
                        src = render(n.children[1])
                        if src in fd and n.children[1].strip().k == "DeclRefExpr":
                            fd[nm] = fd[src]          # copy: a = b
                            if "=" + src in fd:
                                fd["=" + nm] = fd["=" + src]
                    if cv is None and track(nm):
                        # x = x + c  with a known x (counters like *size): handled for any lvalue
                        r3 = n.children[1].strip()
                        if r3.k == "BinaryOperator" and r3.j.get("op") in ("+", "-") and render(r3.children[0]) == nm and r3.children[1].const_value() is not None:
                            old_v = facts_before.get("=" + nm)
                            if isinstance(old_v, int):
                                nv = old_v + (r3.children[1].const_value() if r3.j["op"] == "+" else -r3.children[1].const_value())
                                fd["=" + nm] = nv
                                fd[nm] = bool(nv)
                    elif cv is not None and track(nm) and n.children[0].strip().k != "DeclRefExpr":
                        fd[nm] = bool(cv)         # *size = 1
                        fd["=" + nm] = cv
                elif n.k == "DeclStmt":
                    for d in n.j.get("decls", []):
                        if d.get("init", -1) >= 0 and track(d["name"]):
                            cv = self.fn.nodes[d["init"]].const_value()
                            if cv is not None:
                                fd[d["name"]] = bool(cv)
                                fd["=" + d["name"]] = cv
                            else:
                                fd.pop(d["name"], None)
                                fd.pop("=" + d["name"], None)
                                ini = self.fn.nodes[d["init"]].strip()
                                if ini.string_value() is not None:
                                    fd[d["name"]] = True
                                    fd["=" + d["name"]] = ("str", ini.string_value())
                                if ini.k == "DeclRefExpr" and render(ini) in fd:
                                    fd[d["name"]] = fd[render(ini)]
                                    if "=" + render(ini) in fd:
                                        fd["=" + d["name"]] = fd["=" + render(ini)]
            # p = g(.., &err): when g is known to set *err to a failure code whenever it returns NULL, a later `p == NULL` edge
            # tells that err is non-zero (Program.null_error_summaries)
            summ = self._null_error_summaries()
            if summ:
                for n in (self.blocks[b].elems[start_index:] if first else self.blocks[b].elems):
                    tgt, call = None, None
                    if n.k == "BinaryOperator" and n.j.get("op") == "=" and n.children[0].strip().k == "DeclRefExpr" and n.children[1].strip().k == "CallExpr":
                        tgt, call = render(n.children[0]), n.children[1].strip()
                    elif n.k == "DeclStmt":
                        for d in n.j.get("decls", []):
                            if d.get("init", -1) >= 0 and self.fn.nodes[d["init"]].strip().k == "CallExpr":
                                tgt, call = d["name"], self.fn.nodes[d["init"]].strip()
                    if call is not None and call.j.get("callee") in summ:
                        ei = summ[call.j["callee"]]
                        a = call.call_args()
                        if ei < len(a) and a[ei].strip().k == "UnaryOperator" and a[ei].strip().j.get("op") == "&":
                            fd["?" + tgt] = render(a[ei].strip().children[0])
            if accept is not None and accept(b, fd):
                path = []
                while prev[cur] is not None:
                    path.append(prev[cur][1])
                    cur = prev[cur][0]
                path.reverse()
                return path
            only = None
            blk9 = self.blocks[b]
            if blk9.termk == "SwitchStmt" and blk9.cond is not None and isinstance(fd.get("=" + render(blk9.cond)), int):
                # switch (x) with x known: the matching case (or the way past all cases) is the one way on
                cv9, match9, rest9, plain9 = fd["=" + render(blk9.cond)], None, [], True
                for k9, s9 in enumerate(blk9.succs):
                    lab9 = self.blocks[s9].label if s9 is not None else None
                    if lab9 is not None and lab9.k == "CaseStmt":
                        vals9 = [c9.const_value() for c9 in lab9.children[:-1]]
                        if len(vals9) != 1 or not isinstance(vals9[0], int):
                            plain9 = False
                        elif vals9[0] == cv9:
                            match9 = k9
                    elif s9 is not None:
                        rest9.append(k9)
                if plain9 and (match9 is not None or len(rest9) == 1):
                    only = match9 if match9 is not None else rest9[0]
            for i, s in enumerate(self.blocks[b].succs):
                if s is None or (only is not None and i != only):
                    continue
                lit = self.edge_lit(b, i)
                impl = self.implied_lits(b, i)
                if cut_pred(lit, b, i) or any(cut_pred(l2, b, i) for l2 in impl):
                    continue
                nf = dict(fd)
                if lit is not None and lit.kind == "truth" and lit.node is not None and lit.node.const_value() is not None \
                        and lit.node.k not in ("DeclRefExpr",):
                    if bool(lit.node.const_value()) != lit.pol:
                        continue            # if (0) / if (1) after a constant argument was substituted
                if lit is not None and lit.kind in ("eq", "lt"):
                    # a comparison of a variable of known constant value with a constant is decided
                    lv = fd.get("=" + render(lit.lhs)) if lit.lhs.const_value() is None else lit.lhs.const_value()
                    rv = fd.get("=" + render(lit.rhs)) if lit.rhs.const_value() is None else lit.rhs.const_value()
                    if lv is not None and rv is not None and (lit.lhs.const_value() is None or lit.rhs.const_value() is None):
                        numeric = isinstance(lv, int) and isinstance(rv, int)
                        # a symbolic "some failure code" differs from 0, and may or may not equal any other constant
                        symbolic_vs_zero = lit.kind == "eq" and not numeric and (lv == 0 or rv == 0)
                        if numeric or symbolic_vs_zero:
                            holds = (lv == rv) if lit.kind == "eq" else (lv < rv)
                            if holds != lit.pol:
                                continue
                if lit is not None and track(lit.atom):
                    if lit.atom in nf and nf[lit.atom] != lit.pol:
                        continue            # contradictory path
                    nf[lit.atom] = lit.pol
                    if lit.kind == "truth" and not lit.pol and lit.node.k == "DeclRefExpr":
                        nf["=" + lit.atom] = 0
                        if "?" + lit.atom in nf:
                            ev = nf["?" + lit.atom]
                            nf[ev] = True           # the callee reported why it returned NULL
                            nf.pop("=" + ev, None)
                    elif lit.kind == "eq" and lit.pol:
                        for x, y in ((lit.lhs, lit.rhs), (lit.rhs, lit.lhs)):
                            if x.strip().k == "DeclRefExpr" and x.const_value() is None and y.const_value() is not None:
                                nf["=" + render(x)] = y.const_value()
                                nf[render(x)] = bool(y.const_value())
                    elif lit.kind == "eq" and not lit.pol:
                        # x != 0: the truth of x is known (its value is not)
                        for x, y in ((lit.lhs, lit.rhs), (lit.rhs, lit.lhs)):
                            if x.strip().k == "DeclRefExpr" and x.const_value() is None and y.const_value() == 0:
                                if nf.get(render(x)) is False:
                                    nf = None
                                    break
                                nf[render(x)] = True
                        if nf is None:
                            continue
                nxt = (s, frozenset(nf.items()))
                if nxt not in prev:
                    prev[nxt] = (cur, (b, i))
                    queue.append(nxt)
        return None

    def _null_error_summaries(self):
        prog = getattr(self.fn, "prog", None)
        if prog is None:
            return {}
        cache = getattr(prog, "_null_error_cache", None)
        if cache is None:
            cache = prog._null_error_cache = {}
            prog._null_error_busy = True
            try:
                for g in list(prog.functions.values()):
                    eps = [k for k, q in enumerate(g.params) if (q.get("ct") or "").replace("enum ", "") in ("econf_err *",)]
                    if len(eps) != 1 or not (g.j.get("ret", {}).get("ct") or "").endswith("*") or not g.j.get("cfg"):
                        continue
                    ename = g.params[eps[0]]["name"]
                    gc = g.cfg

                    def bad_return(b, fd, ename=ename, gc=gc):
                        for n in gc.blocks[b].elems:
                            if n.k == "ReturnStmt" and not n.j.get("inlined_return") and n.children:
                                e = n.children[0]
                                if e.is_null_const():
                                    maybe = True
                                else:
                                    v = fd.get(render(e))
                                    maybe = v is not True
                                if maybe and fd.get("*" + ename) is not True:
                                    return True
                        return False
                    wp = gc.feasible_reach(None, lambda lit, b, i: False, lambda a: True, accept=bad_return, init_facts={ename: True})
                    if wp is None:
                        cache[g.name] = eps[0]
            finally:
                prog._null_error_busy = False
        if getattr(prog, "_null_error_busy", False):
            return {}
        return cache

    def must_pass(self, a, b):
        """Does every CONSISTENT path from the entry to node b execute node a first?  (node_dominates, minus
        the paths whose tests contradict the constants assigned on the way.)"""
        if self.node_dominates(a, b):
            return True
        ba, bb = self.block_of(a), self.block_of(b)
        if ba is None or bb is None or ba == bb:
            return False
        succ = {(x, i): s2 for (x, i, s2) in self.edges()}
        wp = self.feasible_reach(bb, lambda lit, x, i: succ.get((x, i)) == ba, lambda atom: True)
        return wp is None

    def required_literals(self, target_block, start=None, expand_locals=True):
        """Literals that hold on EVERY consistent path from start to target_block.  A required literal `v`
        (v a local with exactly one definition whose right-hand side is a pure boolean expression) is expanded:
        the conjuncts of that expression are required too (`ok = a < b && !strcmp(x, y); if (ok) ...`)."""
        from .cond import norm_cond
        out = []
        seen = set()
        cands = {}
        for (b, i, s) in self.edges():
            lit = self.edge_lit(b, i)
            if lit is not None:
                cands.setdefault(lit.key(), lit)
        for key, lit in cands.items():
            ok, cut = self.all_paths_cut(target_block, lambda l2, b, i, key=key: l2 is not None and l2.key() == key, start=start)
            if ok and cut:
                out.append(lit)
                seen.add(key)
        if expand_locals:
            work = list(out)
            defs = {}
            for lhs, rhs, st in self.fn.assignments():
                nm = lhs["name"] if isinstance(lhs, dict) else (lhs.strip().j.get("name") if lhs.strip().k == "DeclRefExpr" else None)
                if nm:
                    defs.setdefault(nm, []).append(rhs)
            while work:
                lit = work.pop()
                if lit.kind != "truth" or not lit.pol or lit.node.k != "DeclRefExpr":
                    continue
                ds = defs.get(lit.node.j.get("name"), [])
                if len(ds) != 1:
                    continue

                def conjuncts(e):
                    e2 = e.strip()
                    if e2.k == "BinaryOperator" and e2.j.get("op") == "&&":
                        return conjuncts(e2.children[0]) + conjuncts(e2.children[1])
                    return [e2]
                for c in conjuncts(ds[0]):
                    if any(x.k == "CallExpr" and x.j.get("callee") not in PURE_CALLS for x in c.walk()):
                        continue
                    l2 = norm_cond(c)
                    if l2.key() not in seen:
                        seen.add(l2.key())
                        out.append(l2)
                        work.append(l2)
        return out

    def returned_via(self, edge=None, start=None):
        """Values the function can return on paths that use `edge` ((block, idx); None = any path) - a set of
        enumerator names / integers, with None for a value that is not a known constant.  A returned local
        variable is followed through constant assignments and refined by the tests on it."""
        from . import query
        ZERO = (0, "ECONF_SUCCESS")
        out = set()
        rets = [n for b in self.blocks.values() for n in b.elems if n.k == "ReturnStmt" and not n.j.get("inlined_return")]
        tracked = set()
        for r in rets:
            if r.children and query.returned_constant(r) is None:
                e = r.children[0].strip()
                tracked.add(e.j["name"] if e.k == "DeclRefExpr" and e.j.get("dk") in ("local", "param") else None)
        if not any(r.children and query.returned_constant(r) is None for r in rets):
            tracked = {None}
        tracked.add(None) if not tracked else None
        for v in tracked:
            TOP = "?"
            seen = set()
            work = [(self.entry if start is None else start, TOP, edge is None)]
            while work:
                b, val, passed = work.pop()
                if (b, val, passed) in seen:
                    continue
                seen.add((b, val, passed))
                blk = self.blocks[b]
                done = False
                for n in blk.elems:
                    if v is not None and n.k == "BinaryOperator" and n.j.get("op") == "=" and render(n.children[0]) == v:
                        c = query.returned_constant_expr(n.children[1])
                        val = c if c is not None else TOP
                    elif v is not None and n.k == "DeclStmt":
                        for d in n.j.get("decls", []):
                            if d["name"] == v:
                                c = query.returned_constant_expr(self.fn.nodes[d["init"]]) if d.get("init", -1) >= 0 else None
                                val = c if c is not None else TOP
                    elif n.k == "ReturnStmt" and not n.j.get("inlined_return"):
                        if passed:
                            c = query.returned_constant(n)
                            if c is not None:
                                out.add(c)
                            elif n.children and v is not None and render(n.children[0]) == v:
                                out.add(None if val == TOP else val)
                            elif n.children and v is None:
                                out.add(None)
                        done = True
                        break
                if done:
                    continue
                for i, s2 in enumerate(blk.succs):
                    if s2 is None:
                        continue
                    lit = self.edge_lit(b, i)
                    nv = val
                    if lit is not None and v is not None:
                        if lit.kind == "truth" and lit.atom == v:
                            if lit.pol and val in ZERO:
                                continue
                            if not lit.pol:
                                if val != TOP and val not in ZERO:
                                    continue
                                nv = "ECONF_SUCCESS" if val == TOP else val
                        elif lit.kind == "eq" and v in (render(lit.lhs), render(lit.rhs)):
                            other = lit.rhs if render(lit.lhs) == v else lit.lhs
                            c = query.returned_constant_expr(other)
                            if c is not None:
                                same = (val == c) or (val in ZERO and c in ZERO)
                                if lit.pol:
                                    if val != TOP and not same:
                                        continue
                                    nv = c if val == TOP else val
                                elif val != TOP and same:
                                    continue
                    work.append((s2, nv, passed or (edge is not None and (b, i) == tuple(edge))))
        return out

    def some_path_avoiding(self, target_block, edge_pred, start=None):
        ok, cut = self.all_paths_cut(target_block, edge_pred, start)
        return not ok

    def witness_path(self, target_block, avoid_edges=(), start=None, avoid_blocks=()):
        """One path (list of (block, edge idx)) from start to target avoiding the edges."""
        start = self.entry if start is None else start
        avoid_edges = set(avoid_edges)
        avoid_blocks = set(avoid_blocks)
        prev = {start: None}
        queue = [start]
        while queue:
            b = queue.pop(0)
            if b == target_block:
                break
            for i, s in enumerate(self.blocks[b].succs):
                if s is None or (b, i) in avoid_edges or s in prev or s in avoid_blocks:
                    continue
                prev[s] = (b, i)
                queue.append(s)
        if target_block not in prev:
            return None
        path = []
        cur = target_block
        while prev[cur] is not None:
            path.append(prev[cur])
            cur = prev[cur][0]
        path.reverse()
        return path

    def describe_path(self, path):
        out = []
        for (b, i) in path or []:
            lit = self.edge_lit(b, i)
            blk = self.blocks[b]
            if lit is not None and blk.cond is not None:
                out.append("%s: %s" % (blk.cond.where, lit))
        return out

    # ---- dominance ---------------------------------------------------------------------------
    def _compute_dom(self, forward=True):
        ids = list(self.blocks)
        root = self.entry if forward else self.exit
        reach = self.reachable(root, forward=forward)
        dom = {b: set(reach) for b in reach}
        dom[root] = {root}
        changed = True
        while changed:
            changed = False
            for b in reach:
                if b == root:
                    continue
                blk = self.blocks[b]
                ins = blk.preds if forward else [s for s in blk.succs if s is not None]
                ins = [p for p in ins if p in reach]
                if not ins:
                    new = {b}
                else:
                    new = set.intersection(*(dom[p] for p in ins)) | {b}
                if new != dom[b]:
                    dom[b] = new
                    changed = True
        return dom

    def dom(self):
        if self._dom is None:
            self._dom = self._compute_dom(True)
        return self._dom

    def pdom(self):
        if self._pdom is None:
            self._pdom = self._compute_dom(False)
        return self._pdom

    def dominates(self, a, b):
        """Block a dominates block b."""
        d = self.dom()
        return b in d and a in d[b]

    def node_dominates(self, na, nb):
        """Evaluation of node na dominates evaluation of node nb."""
        pa, pb = self.index_of(na), self.index_of(nb)
        if pa is None or pb is None:
            return False
        if pa[0] == pb[0]:
            return pa[1] <= pb[1]
        return self.dominates(pa[0], pb[0])

    def postdominates(self, a, b):
        d = self.pdom()
        return b in d and a in d[b]

    # ---- loops -----------------------------------------------------------------------------
    def back_edges(self):
        out = []
        for (b, i, s) in self.edges():
            if self.dominates(s, b):
                out.append((b, i, s))
        return out

    def natural_loop(self, head):
        """Blocks of the natural loop(s) with header head."""
        body = {head}
        for (b, i, s) in self.back_edges():
            if s != head:
                continue
            stack = [b]
            while stack:
                x = stack.pop()
                if x in body:
                    continue
                body.add(x)
                stack.extend(self.blocks[x].preds)
        return body

    def loop_heads(self):
        return sorted(set(s for (_, _, s) in self.back_edges()))

    def loop_branch(self, stmt):
        """block whose terminator is the loop statement (evaluates the last operand of the condition)"""
        for b in self.blocks.values():
            if b.term is stmt:
                return b.id
        return None

    def loop_header(self, stmt):
        """block where an iteration starts (target of the back edges): for `while (A && B)` the block
        evaluating A, not the one whose terminator is the while statement"""
        for b in self.blocks.values():
            if b.looptarget is stmt and b.succs and b.succs[0] is not None:
                return b.succs[0]
        br = self.loop_branch(stmt)
        if br is None:
            return None
        # no dedicated loop-back block: walk back through the condition's short-circuit blocks
        cond = stmt.child("cond")
        cur = br
        changed = True
        while changed and cond is not None:
            changed = False
            for p in self.blocks[cur].preds:
                pb = self.blocks[p]
                if pb.term is not None and pb.term.within(cond) and p != cur:
                    cur = p
                    changed = True
                    break
        return cur

    def loop_body_entry(self, stmt):
        br = self.loop_branch(stmt)
        if br is None:
            return None
        if stmt.k == "DoStmt":
            return self.loop_header(stmt)
        return self.blocks[br].succs[0]

    def loop_of_stmt(self, stmt):
        """(head block, body blocks) of the loop statement node (While/For/Do)."""
        for b in self.blocks.values():
            if b.term is stmt:
                if stmt.k == "DoStmt":
                    # the cond block ends the body; header = target of its true edge's loop-back
                    heads = [h for h in self.loop_heads() if b.id in self.natural_loop(h)]
                    for h in heads:
                        if any(bb == b.id or True for bb in [b.id]):
                            # choose the innermost loop containing b whose back edge leaves b (via loop-back block)
                            pass
                    best = None
                    for h in heads:
                        L = self.natural_loop(h)
                        if best is None or len(L) < len(best[1]):
                            best = (h, L)
                    return best
                return (b.id, self.natural_loop(b.id))
        return None

    def exit_blocks_returning(self):
        """Blocks that end in a return (predecessors of the exit block)."""
        return list(self.blocks[self.exit].preds)

    def return_of_block(self, bid):
        for n in reversed(self.blocks[bid].elems):
            if n.k == "ReturnStmt":
                return n
        return None
