"""Front end driver: compilation database from /repo's current build files, extraction of
every unit with bin/econf-facts, whole-program index.  Nothing here judges anything."""
import glob
import json
import os
import re
import shlex
import shutil
import subprocess
import tempfile
import time
from concurrent.futures import ThreadPoolExecutor

from .ast import Function, Node, GlobalVar

VERIF = os.path.dirname(os.path.dirname(os.path.abspath(__file__)))
REPO = os.environ.get("VERIF_REPO", "/repo")
EXTRACTOR = os.path.join(VERIF, "bin", "econf-facts")


class Inconclusive(Exception):
    """The analysis cannot decide (anchor vanished, idiom not understood, tool failure).
    Never a pass, never a violation: exit code 2."""


def _resource_dir():
    return subprocess.check_output(["clang", "-print-resource-dir"], text=True).strip()


def _keep_flag(tok):
    return (tok.startswith("-D") or tok.startswith("-I") or tok.startswith("-std=")
            or tok.startswith("-U") or tok.startswith("-include") or tok.startswith("-isystem"))


def compile_db(repo=REPO):
    """[(file, [flags])] for the units of targets econf and econftool, from the real build
    description.  Uses /repo/_build/build.ninja when present and not older than the CMake
    files; otherwise configures into a scratch directory (removed afterwards)."""
    src_cmake = [os.path.join(repo, "CMakeLists.txt")] + glob.glob(os.path.join(repo, "*/CMakeLists.txt"))
    bn = os.path.join(repo, "_build", "build.ninja")
    db = None
    how = None
    if os.path.exists(bn) and all(os.path.getmtime(bn) >= os.path.getmtime(c) for c in src_cmake if os.path.exists(c)):
        try:
            out = subprocess.check_output(["ninja", "-C", os.path.join(repo, "_build"), "-t", "compdb"],
                                          text=True, stderr=subprocess.DEVNULL)
            db = json.loads(out)
            how = "ninja -t compdb on /repo/_build"
        except Exception:
            db = None
    if db is None:
        scratch = tempfile.mkdtemp(prefix="econf-verif-cdb-")
        try:
            subprocess.check_call(["cmake", "-G", "Ninja", "-S", repo, "-B", scratch,
                                   "-DCMAKE_EXPORT_COMPILE_COMMANDS=ON"],
                                  stdout=subprocess.DEVNULL, stderr=subprocess.DEVNULL)
            with open(os.path.join(scratch, "compile_commands.json")) as f:
                db = json.load(f)
            how = "cmake configure in scratch dir"
        except Exception:
            db = None
        finally:
            shutil.rmtree(scratch, ignore_errors=True)
    units = []
    if db is not None:
        seen = set()
        for e in db:
            f = os.path.normpath(e["file"])
            rel = os.path.relpath(f, repo)
            if not (rel.startswith("lib/") or rel.startswith("util/")) or not f.endswith(".c"):
                continue
            if f in seen:
                continue
            seen.add(f)
            toks = shlex.split(e.get("command") or " ".join(e.get("arguments", [])))
            flags = [t for t in toks if _keep_flag(t)]
            flags = [t for t in flags if t != "-DNDEBUG"]
            units.append((f, flags))
    else:
        # last resort: the flags of lib/CMakeLists.txt as read on the design day
        how = "fallback flags (no cmake/ninja available)"
        flags = ["-D_GNU_SOURCE", "-D_REENTRANT=1", "-std=gnu11", "-I" + os.path.join(repo, "include")]
        for f in sorted(glob.glob(os.path.join(repo, "lib", "*.c"))) + [os.path.join(repo, "util", "econftool.c")]:
            units.append((f, list(flags)))
    return units, how


def check_units_cover_build(units, repo=REPO):
    """A static tool sees only what was parsed: every lib/*.c on disk must be a unit, and every
    source named in lib/CMakeLists.txt's econf_SRCS must exist."""
    problems = []
    on_disk = set(os.path.normpath(p) for p in glob.glob(os.path.join(repo, "lib", "*.c")))
    in_db = set(f for f, _ in units if os.path.relpath(f, repo).startswith("lib/"))
    for f in sorted(on_disk - in_db):
        problems.append("source on disk not compiled by the build: %s" % f)
    for f in sorted(in_db - on_disk):
        problems.append("unit of the build missing on disk: %s" % f)
    try:
        txt = open(os.path.join(repo, "lib", "CMakeLists.txt")).read()
        m = re.search(r"set\(econf_SRCS(.*?)\)", txt, re.S)
        if m:
            srcs = set(os.path.normpath(os.path.join(repo, "lib", s)) for s in m.group(1).split())
            for f in sorted(srcs - in_db):
                problems.append("econf_SRCS names %s but the database has no such unit" % f)
    except OSError:
        problems.append("lib/CMakeLists.txt unreadable")
    if not any(os.path.relpath(f, repo) == "util/econftool.c" for f, _ in units):
        problems.append("util/econftool.c is not a unit")
    return problems


def extract_unit(path, flags, root=REPO):
    cmd = [EXTRACTOR, "--root=" + root, path, "--"] + flags + ["-resource-dir", _resource_dir(), "-w"]
    p = subprocess.run(cmd, stdout=subprocess.PIPE, stderr=subprocess.PIPE)
    if p.returncode != 0:
        raise Inconclusive("extractor failed on %s: %s" % (path, p.stderr.decode(errors="replace")[-2000:]))
    return json.loads(p.stdout.decode("utf-8"))


def _subtree(nodes, root):
    """copy of the sub-tree below nodes[root] with ids renumbered from 0"""
    order = []
    def walk(i):
        if i is None or i < 0 or nodes[i] is None:
            return
        order.append(i)
        for c in nodes[i].get("ch", []):
            walk(c)
    walk(root)
    remap = {old: new for new, old in enumerate(order)}
    out = []
    for old in order:
        n = dict(nodes[old])
        n["id"] = remap[old]
        n["ch"] = [remap.get(c, -1) for c in n.get("ch", [])]
        out.append(n)
    return out


def flatten_global_records(units, results, repo):
    """A record object with static storage that merely gathers objects the rules were confirmed against (the security
    settings in one struct, the tool's state in one struct) is taken apart again: `G.field` becomes a reference to the
    confirmed object, which is given back as a global of its own.  Only done when every use of G is `G.field` with a
    field that has exactly one confirmed counterpart (same type, overlapping name); anything else leaves G alone."""
    try:
        with open(os.path.join(VERIF, "rules", "tables", "anchors.json")) as f:
            conf = json.load(f).get("globals")
    except OSError:
        conf = None
    done = {}
    if not conf or os.environ.get("VERIF_NO_RENAME"):
        return done
    for key in ("lib", "util"):
        raws = [(os.path.relpath(u[0], repo), r) for u, r in zip(units, results) if os.path.relpath(u[0], repo).startswith("util/") == (key == "util")]
        defined = set(g["name"] for _rel, r in raws for g in r["globals"] if g.get("is_def"))
        vanished = [c for c in conf.get(key, []) if c["name"] not in defined]
        if not vanished:
            continue
        # candidate record objects
        records = {}
        for _rel, r in raws:
            for rec in r["records"]:
                if rec.get("name"):
                    records.setdefault("struct " + rec["name"], rec)
                records.setdefault("struct (unnamed at %s:%s:%s)" % (rec.get("file"), rec.get("line"), rec.get("col")), rec)
        cands = {}
        for _rel, r in raws:
            for g in r["globals"]:
                if g.get("ct") in records and g["name"] not in [c["name"] for c in conf.get(key, [])]:
                    cands.setdefault(g["name"], records[g["ct"]])
        used = set()
        for gname, rec in sorted(cands.items()):
            mapping = {}
            for fi, fld in enumerate(rec["fields"]):
                ftok = set(t for t in fld["name"].lower().split("_") if t)
                scored = []
                for c in vanished:
                    if c["ct"] != fld.get("ct") or c["name"] in used:
                        continue
                    ctok = set(t for t in c["name"].lower().split("_") if t)
                    sc = len(ftok & ctok)
                    if c["name"].lower().endswith(fld["name"].lower()) or fld["name"].lower().endswith(c["name"].lower()):
                        sc += 10
                    if c["name"] == fld["name"]:
                        sc += 100
                    if sc:
                        scored.append((sc, c["name"]))
                scored.sort(reverse=True)
                if scored and (len(scored) == 1 or scored[0][0] > scored[1][0]):
                    mapping[fld["name"]] = (fi, scored[0][1])
            if not mapping or len(set(v[1] for v in mapping.values())) != len(mapping):
                continue
            # every use of G must be G.<mapped field>
            ok = True
            sites = []
            for _rel, r in raws:
                for fj in r["functions"]:
                    nodes = fj["nodes"]
                    parent = {}
                    for n in nodes:
                        if n:
                            for c in n.get("ch", []):
                                if c is not None and c >= 0:
                                    parent[c] = n["id"]
                    for n in nodes:
                        if n and n["k"] == "DeclRefExpr" and n.get("name") == gname and n.get("dk") in ("global", "static_global"):
                            up = parent.get(n["id"])
                            chain = [n["id"]]
                            while up is not None and nodes[up]["k"] == "ParenExpr":
                                chain.append(up)
                                up = parent.get(up)
                            if up is None or nodes[up]["k"] != "MemberExpr" or nodes[up].get("arrow") or nodes[up].get("member") not in mapping:
                                ok = False
                            else:
                                sites.append((fj, up, chain))
            if not ok:
                continue
            for fj, mid, chain in sites:
                nodes = fj["nodes"]
                m = nodes[mid]
                base = nodes[chain[0]]
                fi, cname = mapping[m["member"]]
                m["k"] = "DeclRefExpr"
                m["name"] = cname
                m["dk"] = base.get("dk")
                m["did"] = "%s.%d" % (base.get("did"), fi)
                m["ch"] = []
                m["flattened_from"] = "%s.%s" % (gname, m.pop("member"))
                for k2 in ("arrow", "fidx", "rec"):
                    m.pop(k2, None)
                dead = set(chain)
                for d in dead:
                    nodes[d] = {"id": d, "k": "NullStmt", "ch": [], "line": nodes[d].get("line", 0), "col": nodes[d].get("col", 0)}
                for b in (fj.get("cfg") or {}).get("blocks", []):
                    b["elems"] = [e for e in b["elems"] if e not in dead]
            for rel, r in raws:
                newg = []
                for g in r["globals"]:
                    if g["name"] != gname:
                        newg.append(g)
                        continue
                    gnodes = g.get("nodes", [])
                    init = g.get("init", -1)
                    for fname, (fi, cname) in sorted(mapping.items(), key=lambda kv: kv[1][0]):
                        fld = rec["fields"][fi]
                        v = {"name": cname, "t": fld.get("t"), "ct": fld.get("ct"), "static": g.get("static", False), "extern": g.get("extern", False),
                             "const": g.get("const", False), "is_def": g.get("is_def", False), "file": g.get("file"),
                             "line": fld.get("line", g.get("line", 0)), "col": fld.get("col", 0), "did": "%s.%d" % (g.get("did"), fi),
                             "nodes": [], "flattened_from": "%s.%s" % (gname, fname)}
                        for k2 in ("sg", "w"):
                            if k2 in fld:
                                v[k2] = fld[k2]
                        if fld.get("arr"):
                            v["arr"] = fld["arr"]
                        if init is not None and init >= 0 and gnodes and gnodes[init].get("k") == "InitListExpr" and fi < len(gnodes[init].get("ch", [])):
                            sub = _subtree(gnodes, gnodes[init]["ch"][fi])
                            if sub and sub[0].get("k") != "ImplicitValueInitExpr":
                                v["nodes"] = sub
                                v["init"] = 0
                        newg.append(v)
                    if len(mapping) != len(rec["fields"]):
                        newg.append(g)      # the record keeps fields of its own
                r["globals"] = newg
            used |= set(v[1] for v in mapping.values())
            done[gname] = {f: v[1] for f, v in mapping.items()}
    return done


def parse_map(repo=REPO):
    """Exported symbols from lib/libeconf.map (global: sections)."""
    try:
        txt = open(os.path.join(repo, "lib", "libeconf.map")).read()
    except OSError:
        raise Inconclusive("lib/libeconf.map missing")
    names = []
    for block in re.finditer(r"global:(.*?)(?:local:|\})", txt, re.S):
        for n in re.findall(r"([A-Za-z_][A-Za-z0-9_]*)\s*;", block.group(1)):
            if n not in names:
                names.append(n)
    return names


def _normalise_boolean_searches(fn):
    """strrchr(s, c) / rindex(s, c) used only as a truth value (`!= NULL`, `!`, a condition) answers the same question as strchr(s, c):
    "does c occur in s".  The call is read as strchr() so that membership tests are recognised in either spelling."""
    for n in fn.nodes:
        if n is None or n.k != "CallExpr" or n.j.get("callee") not in ("strrchr", "rindex"):
            continue
        up = n.parent
        while up is not None and up.k in ("ParenExpr", "ImplicitCastExpr", "CStyleCastExpr"):
            up = up.parent
        boolean = False
        if up is not None and up.k == "BinaryOperator" and up.j.get("op") in ("==", "!="):
            other = [c for c in up.children if not (n is c or n.within(c))]
            boolean = bool(other) and other[0].is_null_const()
        elif up is not None and up.k == "UnaryOperator" and up.j.get("op") == "!":
            boolean = True
        elif up is not None and up.k == "BinaryOperator" and up.j.get("op") in ("&&", "||"):
            boolean = True
        elif up is not None and up.k in ("IfStmt", "WhileStmt", "DoStmt", "ForStmt", "ConditionalOperator") and up.child("cond") is not None and (
                n is up.child("cond") or n.within(up.child("cond"))):
            boolean = True
        if boolean:
            n.j["callee"] = "strchr" if n.j["callee"] == "strrchr" else "index"
            for c in n.children[:1]:
                for x in c.walk():
                    if x.k == "DeclRefExpr" and x.j.get("dk") == "func" and x.j.get("name") in ("strrchr", "rindex"):
                        x.j["name"] = n.j["callee"]


class Program:
    """Whole-program index over the extracted units."""

    def __init__(self, repo=REPO):
        self.repo = repo
        self.units = []          # [(path, flags)]
        self.how_db = None
        self.functions = {}      # name -> Function (lib + util; util's are prefixed in .util)
        self.util_functions = {}
        self.records = {}
        self.enums = {}
        self.enumerators = {}    # name -> value
        self.globals = {}        # name -> GlobalVar (definitions in lib)
        self.util_globals = {}
        self.declarations = {}
        self.exports = []
        self.raw = {}
        self.wall = {}

    @staticmethod
    def load(repo=REPO, only=None, extra_units=None):
        t0 = time.time()
        prog = Program(repo)
        if not os.path.exists(EXTRACTOR):
            raise Inconclusive("bin/econf-facts not built (run tools/build.sh)")
        db_from = os.environ.get("VERIF_DB_FROM")
        if db_from and os.path.abspath(db_from) != os.path.abspath(repo):
            # the borrowed database is only valid while the scratch copy has the same build description and the same sources
            def build_view(root):
                files = sorted(os.path.relpath(x, root) for pat in ("lib/*.c", "util/*.c") for x in glob.glob(os.path.join(root, pat)))
                cm = []
                for c in [os.path.join(root, "CMakeLists.txt")] + sorted(glob.glob(os.path.join(root, "*/CMakeLists.txt"))):
                    try:
                        cm.append(open(c).read())
                    except OSError:
                        cm.append("")
                return files, cm
            if build_view(db_from) != build_view(repo):
                db_from = None
        if db_from and os.path.abspath(db_from) != os.path.abspath(repo):
            # scratch copies (self-test mutants): flags of the real build, paths remapped
            units0, how = compile_db(db_from)
            units = []
            for f, flags in units0:
                nf = os.path.join(repo, os.path.relpath(f, db_from))
                units.append((nf, [fl.replace(db_from + "/", repo + "/") for fl in flags]))
            how += " (remapped to %s)" % repo
        else:
            units, how = compile_db(repo)
        prog.how_db = how
        problems = check_units_cover_build(units, repo)
        if problems:
            raise Inconclusive("; ".join(problems))
        if extra_units:
            units = units + extra_units
        prog.units = units
        prog.wall["compdb"] = time.time() - t0
        t1 = time.time()
        with ThreadPoolExecutor(max_workers=min(16, len(units))) as ex:
            results = list(ex.map(lambda u: extract_unit(u[0], u[1], repo), units))
        prog.wall["extract"] = time.time() - t1
        prog.flattened_globals = flatten_global_records(units, results, repo)
        for (path, _), raw in zip(units, results):
            prog._add_unit(path, raw)
        prog.exports = parse_map(repo)
        prog.apply_inlining()
        prog.wall["total"] = time.time() - t0
        return prog

    def _add_unit(self, path, raw):
        rel = os.path.relpath(path, self.repo)
        self.raw[rel] = raw
        is_util = rel.startswith("util/")
        ftab = self.util_functions if is_util else self.functions
        gtab = self.util_globals if is_util else self.globals
        from .inline import lower_const_conditionals, lower_record_literals
        recs9 = {}
        for r9 in raw["records"]:
            if r9.get("fields"):
                for nm9 in (r9.get("name"), r9.get("alias")):
                    if nm9:
                        recs9.setdefault(nm9, r9)
        for fj in raw["functions"]:
            try:
                lower_const_conditionals(fj)
            except Exception:
                pass
            if any(n9 and n9.get("k") == "CompoundLiteralExpr" for n9 in fj.get("nodes") or []):
                lower_record_literals(fj, recs9)
            fn = Function(fj, rel, self)
            _normalise_boolean_searches(fn)
            if fn.name in ftab:
                other = ftab[fn.name]
                if other.is_static and fn.is_static and other.file != fn.file and os.path.basename(fn.file).endswith(".h"):
                    continue
                if other.file == fn.file and other.line == fn.line:
                    continue  # same inline function from a header
                raise Inconclusive("function name clash: %s in %s and %s" % (fn.name, other.unit, rel))
            ftab[fn.name] = fn
        for r in raw["records"]:
            self.records.setdefault(r["name"] or r.get("alias"), r)
            if r.get("alias"):
                self.records.setdefault(r["alias"], r)
        for e in raw["enums"]:
            self.enums.setdefault(e["name"] or e.get("alias"), e)
            if e.get("alias"):
                self.enums.setdefault(e["alias"], e)
            for c in e["enumerators"]:
                self.enumerators[c["name"]] = c["val"]
        for g in raw["globals"]:
            gv = GlobalVar(g, rel)
            if gv.is_def:
                gtab[gv.name] = gv
            else:
                gtab.setdefault(gv.name, gv)
        for d in raw["declarations"]:
            self.declarations.setdefault(d["name"], d)

    def apply_inlining(self):
        """Static functions that are not anchors of the rules (helpers extracted after the rules were written)
        are analysed in the context of their callers: see sa/inline.py."""
        from .inline import inline_helpers
        try:
            with open(os.path.join(VERIF, "rules", "tables", "anchors.json")) as f:
                anchors = set(json.load(f)["functions"])
        except OSError:
            return
        self.inlined_helpers = {}
        self.relocated = {}
        try:
            with open(os.path.join(VERIF, "rules", "tables", "anchors.json")) as f:
                fps = json.load(f).get("fingerprints", {})
        except OSError:
            fps = {}
        # anchors whose name vanished: an internal function that was renamed is found again by its callee set
        for tab, is_util in ((self.functions, False), (self.util_functions, True)):
            missing = [a for a in anchors if a not in tab and a in fps and fps[a]["unit"].startswith("util/") == is_util]
            if not missing:
                continue
            newcomers = {name: fn for name, fn in tab.items() if name not in anchors and not fn.file.endswith(".h") and name not in self.exports_names()}
            cs = {name: set(x.j.get("callee") for x in fn.nodes if x is not None and x.k == "CallExpr" and x.j.get("callee")) for name, fn in newcomers.items()}
            for a in missing:
                want = set(fps[a]["callees"])
                if len(want) < 2:
                    continue
                scored = []
                for name, got in cs.items():
                    inter = len(want & got)
                    union = len(want | got) or 1
                    scored.append((inter / union, name))
                scored.sort(reverse=True)
                if scored and scored[0][0] >= 0.7 and (len(scored) == 1 or scored[1][0] < scored[0][0] - 0.15):
                    new = scored[0][1]
                    tab[a] = tab.pop(new)
                    tab[a].real_name = new
                    tab[a].name = a             # the rules speak of the anchor by its confirmed name
                    tab[a].j["name"] = a
                    self.relocated[a] = new
                    # the rules speak of the anchor by its confirmed name: call sites follow
                    for fn2 in list(tab.values()):
                        for n2 in fn2.nodes:
                            if n2 is None:
                                continue
                            if n2.k == "CallExpr" and n2.j.get("callee") == new:
                                n2.j["callee"] = a
                            elif n2.k == "DeclRefExpr" and n2.j.get("dk") == "func" and n2.j.get("name") == new:
                                n2.j["name"] = a
        # parameters that were merely renamed get their confirmed names back
        try:
            with open(os.path.join(VERIF, "rules", "tables", "anchors.json")) as f:
                pconf = json.load(f).get("params", {})
        except OSError:
            pconf = {}
        self.renamed_params = {}
        for tab in (self.functions, self.util_functions):
            for name, fn in tab.items():
                conf = pconf.get(name)
                if not conf or len(conf) != len(fn.params):
                    continue
                cur = [(q["name"], q.get("ct")) for q in fn.params]
                if [c[1] for c in cur] != [c[1] for c in conf] or [c[0] for c in cur] == [c[0] for c in conf]:
                    continue
                ren = {cur[i][0]: conf[i][0] for i in range(len(cur)) if cur[i][0] != conf[i][0]}
                taken = set(d2["name"] for n2 in fn.nodes if n2 is not None and n2.k == "DeclStmt" for d2 in n2.j.get("decls", []))
                taken |= set(q["name"] for q in fn.params if q["name"] not in ren)
                if any(v in taken for v in ren.values()):
                    continue
                for q in fn.j["params"]:
                    if q["name"] in ren:
                        q["name"] = ren[q["name"]]
                for n2 in fn.nodes:
                    if n2 is not None and n2.k == "DeclRefExpr" and n2.j.get("dk") == "param" and n2.j.get("name") in ren:
                        n2.j["name"] = ren[n2.j["name"]]
                fn.params = fn.j["params"]
                if hasattr(fn, "_alias_map"):
                    fn._alias_map = None
                self.renamed_params[name] = ren
        # locals that were merely renamed (same declarations in the same order, same types) get their confirmed names back
        try:
            with open(os.path.join(VERIF, "rules", "tables", "anchors.json")) as f:
                lconf = json.load(f).get("locals", {})
        except OSError:
            lconf = {}
        self.renamed_locals = {}
        if os.environ.get("VERIF_NO_RENAME"):
            lconf = {}
        for tab in (self.functions, self.util_functions):
            for name, fn in tab.items():
                conf = lconf.get(name)
                if not conf:
                    continue
                cur = []
                for n2 in fn.nodes:
                    if n2 is not None and n2.k == "DeclStmt" and n2.j.get("synthetic_of") is None:
                        for d2 in n2.j.get("decls", []):
                            cur.append(d2)
                if len(cur) != len(conf) or [d2.get("ct") for d2 in cur] != [c[1] for c in conf]:
                    continue
                if [d2["name"] for d2 in cur] == [c[0] for c in conf]:
                    continue
                pnames = set(q["name"] for q in fn.params)
                ren = {}
                for d2, c in zip(cur, conf):
                    if d2["name"] != c[0]:
                        ren[d2.get("did")] = (d2["name"], c[0])
                if any(newn in pnames for (_o, newn) in ren.values()) or None in ren:
                    continue
                for n2 in fn.nodes:
                    if n2 is not None and n2.k == "DeclStmt":
                        for d2 in n2.j.get("decls", []):
                            if d2.get("did") in ren:
                                d2["name"] = ren[d2["did"]][1]
                for n2 in fn.nodes:
                    if n2 is not None and n2.k == "DeclRefExpr" and n2.j.get("dk") in ("local", "static_local") and n2.j.get("did") in ren:
                        n2.j["name"] = ren[n2.j["did"]][1]
                if hasattr(fn, "_alias_map"):
                    fn._alias_map = None
                self.renamed_locals[name] = {o: nn for (o, nn) in ren.values()}
        # a static helper that IS isspace() in the "C" locale - `return c == ' ' || c == '\t' || c == '\n' || c == '\v' || c == '\f' || c == '\r';`
        # with all six - is read as isspace(): the rules then see the blank tests they know (an incomplete set stays a function of its own
        # and is judged by parser.blank_set_rule)
        self.blank_classifiers = {}
        for tab in (self.functions, self.util_functions):
            for name, fn in list(tab.items()):
                if name in anchors or not fn.is_static or len(fn.params) != 1 or fn.body is None:
                    continue
                rets = [n for n in fn.nodes if n is not None and n.k == "ReturnStmt"]
                stmts = [c for c in fn.body.children] if fn.body.k == "CompoundStmt" else [fn.body]
                if len(rets) != 1 or len(stmts) != 1 or not rets[0].children:
                    continue
                chars, ok = set(), True

                def parts(e):
                    e2 = e.strip()
                    if e2.k == "BinaryOperator" and e2.j.get("op") == "||":
                        return parts(e2.children[0]) + parts(e2.children[1])
                    return [e2]
                for pt in parts(rets[0].children[0]):
                    if pt.k == "BinaryOperator" and pt.j.get("op") == "==":
                        a, b = pt.children[0].strip(), pt.children[1].strip()
                        cv = b.const_value() if a.k == "DeclRefExpr" else (a.const_value() if b.k == "DeclRefExpr" else None)
                        v = a if a.k == "DeclRefExpr" else b
                        if isinstance(cv, int) and v.k == "DeclRefExpr" and v.j.get("name") == fn.params[0]["name"]:
                            chars.add(cv)
                            continue
                    ok = False
                if ok and chars == {32, 9, 10, 11, 12, 13}:
                    self.blank_classifiers[name] = fn
                    for fn2 in tab.values():
                        for n2 in fn2.nodes:
                            if n2 is None:
                                continue
                            if n2.k == "CallExpr" and n2.j.get("callee") == name:
                                n2.j["callee"] = "isspace"
                            elif n2.k == "DeclRefExpr" and n2.j.get("dk") == "func" and n2.j.get("name") == name:
                                n2.j["name"] = "isspace"
        for tab in (self.functions, self.util_functions):
            helpers = {}
            for name, fn in tab.items():
                if name in anchors or not fn.is_static or fn.file.endswith(".h") or name in self.blank_classifiers:
                    continue
                # address taken anywhere? then it is not a plain helper
                taken = False
                for g in tab.values():
                    for n in g.nodes:
                        if n.k == "DeclRefExpr" and n.j.get("dk") == "func" and n.j.get("name") == name:
                            up = n.up()
                            if not (up is not None and up.k == "CallExpr" and up.children and up.children[0].strip() is n):
                                taken = True
                if not taken and fn.j.get("cfg"):
                    helpers[name] = fn.j
            if not helpers:
                continue
            for name in list(tab):
                fn = tab[name]
                if name in helpers and False:
                    continue
                if not any(n.k == "CallExpr" and n.j.get("callee") in helpers and n.j.get("callee") != name for n in fn.nodes):
                    continue
                newj, done = inline_helpers(fn.j, helpers)
                if done:
                    nf = Function(newj, fn.unit, self)
                    nf.inlined = done
                    nf.original = fn
                    tab[name] = nf
            for name in helpers:
                tab[name].is_inlined_helper = True
                self.inlined_helpers[name] = tab[name]

    # ---- queries ---------------------------------------------------------------------
    def fn(self, name, util=False):
        tab = self.util_functions if util else self.functions
        f = tab.get(name)
        if f is None:
            raise Inconclusive("anchor vanished: function %s not found" % name)
        return f

    def exports_names(self):
        try:
            return set(self.exports)
        except Exception:
            return set()

    def has_fn(self, name, util=False):
        return name in (self.util_functions if util else self.functions)

    def lib_functions(self, with_helpers=False):
        return [f for f in self.functions.values() if f.unit.startswith("lib/") and not f.file.endswith(".h")
                and (with_helpers or not getattr(f, "is_inlined_helper", False))]

    def entry_points(self):
        return [n for n in self.exports if n in self.functions]

    def record(self, name):
        r = self.records.get(name)
        if r is None:
            raise Inconclusive("anchor vanished: record %s" % name)
        return r

    def enum(self, name):
        e = self.enums.get(name)
        if e is None:
            raise Inconclusive("anchor vanished: enum %s" % name)
        return e
