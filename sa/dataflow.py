"""Reaching definitions for local variables and parameters over clang's CFG (element
granularity), plus origin resolution of pointers (which allocation / parameter / call a
pointer variable came from at a given program point)."""
from .ast import render
from . import query


class Def:
    __slots__ = ("var", "node", "rhs", "kind", "idx")

    def __init__(self, var, node, rhs, kind, idx):
        self.var = var      # variable name
        self.node = node    # statement node of the definition (None for the entry def of a parameter)
        self.rhs = rhs      # expression assigned (None for updates / unknown)
        self.kind = kind    # 'assign' | 'init' | 'update' (v++, v += k, *v++ side effect) | 'addr' (&v passed to a call) | 'param' | 'uninit'
        self.idx = idx

    def __repr__(self):
        return "<def %s %s %s>" % (self.var, self.kind, render(self.rhs) if self.rhs is not None else "")


class ReachingDefs:
    def __init__(self, fn):
        self.fn = fn
        self.cfg = fn.cfg
        self.defs = []
        self.defs_at = {}     # node id -> [Def] generated when that CFG element is evaluated
        self._collect()
        self._solve()

    def _add(self, var, node, rhs, kind):
        d = Def(var, node, rhs, kind, len(self.defs))
        self.defs.append(d)
        if node is not None:
            self.defs_at.setdefault(node.id, []).append(d)
        return d

    def _collect(self):
        fn = self.fn
        self.entry_defs = []
        for p in fn.params:
            self.entry_defs.append(self._add(p["name"], None, None, "param"))
        for n in fn.nodes:
            if n.k == "BinaryOperator" and n.j.get("op") == "=":
                l = n.children[0].strip()
                if l.k == "DeclRefExpr" and l.j.get("dk") in ("local", "param"):
                    self._add(l.j["name"], n, n.children[1], "assign")
            elif n.k == "CompoundAssignOperator":
                l = n.children[0].strip()
                if l.k == "DeclRefExpr" and l.j.get("dk") in ("local", "param"):
                    self._add(l.j["name"], n, None, "update")
            elif n.k == "UnaryOperator" and n.j.get("op") in ("++", "--"):
                l = n.children[0].strip()
                if l.k == "DeclRefExpr" and l.j.get("dk") in ("local", "param"):
                    self._add(l.j["name"], n, None, "update")
            elif n.k == "DeclStmt":
                # CFG elements are the synthetic single-declarator statements when a statement
                # declares several variables; otherwise the statement itself
                if len(n.j.get("decls", [])) > 1 and not n.j.get("synthetic_of"):
                    in_cfg = n.id in self.cfg.pos
                    if not in_cfg:
                        continue
                for d in n.j.get("decls", []):
                    if d.get("static"):
                        continue
                    if d.get("init", -1) >= 0:
                        self._add(d["name"], n, fn.nodes[d["init"]], "init")
                    else:
                        self._add(d["name"], n, None, "uninit")
            elif n.k == "UnaryOperator" and n.j.get("op") == "&":
                l = n.children[0].strip()
                if l.k == "DeclRefExpr" and l.j.get("dk") in ("local", "param"):
                    up = n.up()
                    if up is not None and up.k == "CallExpr":
                        self._add(l.j["name"], up, None, "addr")

    def _solve(self):
        cfg = self.cfg
        by_var = {}
        for d in self.defs:
            by_var.setdefault(d.var, set()).add(d.idx)
        gen, kill = {}, {}
        for b in cfg.blocks.values():
            g = {}
            for n in b.elems:
                for d in self.defs_at.get(n.id, []):
                    if d.kind == "addr":
                        g.setdefault(d.var, set()).add(d.idx)       # may-def: does not kill
                    else:
                        g[d.var] = {d.idx}
            gen[b.id] = g
        self.IN = {b: {} for b in cfg.blocks}
        self.OUT = {b: {} for b in cfg.blocks}
        self.IN[cfg.entry] = {}
        for d in self.entry_defs:
            self.IN[cfg.entry].setdefault(d.var, set()).add(d.idx)
        live = cfg.reachable(cfg.entry)      # blocks no path enters (code behind a return, the other cases of a constant switch) define nothing
        work = [b for b in cfg.blocks if b in live]
        while work:
            b = work.pop()
            blk = cfg.blocks[b]
            if b != cfg.entry:
                inn = {}
                for p in blk.preds:
                    if p not in live:
                        continue
                    for v, s in self.OUT[p].items():
                        inn.setdefault(v, set()).update(s)
                self.IN[b] = inn
            out = {v: set(s) for v, s in self.IN[b].items()}
            cur = out
            for n in blk.elems:
                for d in self.defs_at.get(n.id, []):
                    if d.kind == "addr":
                        cur.setdefault(d.var, set()).add(d.idx)
                    else:
                        cur[d.var] = {d.idx}
            if out != self.OUT[b]:
                self.OUT[b] = out
                for s in blk.succs:
                    if s is not None and s not in work:
                        work.append(s)

    def reaching(self, var, node):
        """Defs of var that may reach the evaluation of node (before node's own effect)."""
        pos = self.cfg.index_of(node)
        if pos is None:
            return []
        b, i = pos
        cur = {v: set(s) for v, s in self.IN[b].items()}
        for n in self.cfg.blocks[b].elems[:i]:
            for d in self.defs_at.get(n.id, []):
                if d.kind == "addr":
                    cur.setdefault(d.var, set()).add(d.idx)
                else:
                    cur[d.var] = {d.idx}
        return [self.defs[k] for k in sorted(cur.get(var, ()))]

    def reaching_before_def(self, d):
        """Defs of d.var reaching just before definition d itself (for updates like v++)."""
        if d.node is None:
            return []
        return [x for x in self.reaching(d.var, d.node) if x.idx != d.idx]


POINTER_PASS_THROUGH = {"stpcpy": 0, "strcpy": 0, "strcat": 0, "strncpy": 0, "memcpy": 0, "mempcpy": 0, "strchr": 0,
                        "strrchr": 0, "strstr": 0}


def origins(rd, expr, at, _seen=None, passthrough=POINTER_PASS_THROUGH):
    """Set of origin nodes a pointer expression may stem from at program point `at`:
    CallExpr nodes (allocations or other calls), ('param', name), ('expr', node) for anything
    else (field loads, literals ...)."""
    _seen = _seen if _seen is not None else set()
    e = expr.strip()
    if e.k == "ConditionalOperator":
        return origins(rd, e.child("then"), at, _seen, passthrough) | origins(rd, e.child("else"), at, _seen, passthrough)
    if e.k == "BinaryOperator" and e.j.get("op") in ("+", "-"):
        a, b = e.children[0].strip(), e.children[1].strip()
        pa = a.j.get("ct", "").endswith("*") or a.j.get("ct", "").endswith("]")
        return origins(rd, a if pa else b, at, _seen, passthrough)
    if e.k == "UnaryOperator" and e.j.get("op") in ("++", "--"):
        return origins(rd, e.children[0], at, _seen, passthrough)
    if e.k == "BinaryOperator" and e.j.get("op") == "=":
        return origins(rd, e.children[1], at, _seen, passthrough)
    if e.k == "CallExpr":
        c = e.j.get("callee")
        if c in passthrough and len(e.call_args()) > passthrough[c]:
            return origins(rd, e.call_args()[passthrough[c]], at, _seen, passthrough)
        return {e}
    if e.k == "DeclRefExpr" and e.j.get("dk") in ("local", "param"):
        out = set()
        for d in rd.reaching(e.j["name"], at):
            out |= _def_origins(rd, d, _seen, passthrough)
        return out
    return {("expr", e)}


def _def_origins(rd, d, _seen, passthrough):
    if d.idx in _seen:
        return set()
    _seen = _seen | {d.idx}
    if d.kind == "param":
        return {("param", d.var)}
    if d.kind in ("assign", "init"):
        return origins(rd, d.rhs, d.node, _seen, passthrough)
    if d.kind == "update":
        out = set()
        for p in rd.reaching_before_def(d):
            out |= _def_origins(rd, p, _seen, passthrough)
        return out
    if d.kind == "addr":
        return {("out-param-of", d.node)}
    if d.kind == "uninit":
        return {("uninit", d.var)}
    return set()
