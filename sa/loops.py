"""E-loop: shape of counting loops (induction variable, start, bound, direction, element expression)."""
from .ast import render


class LoopShape:
    def __init__(self, node):
        self.node = node
        self.var = None
        self.start = None       # render of the start expression
        self.start_node = None
        self.bound = None       # render of the bound expression
        self.cmp = None         # '<', '<=', '>', '>=', '!='
        self.step = 0           # +1 / -1
        self.ok = False
        self.why = ""

    @property
    def direction(self):
        if not self.ok:
            return "unrecognised"
        return "ascending" if self.step > 0 else "descending"

    def describe(self):
        if not self.ok:
            return "unrecognised (%s)" % self.why
        return "%s %s from %s while %s %s %s" % (self.direction, self.var, self.start, self.var, self.cmp, self.bound)


def _step_of(n):
    s = n.strip()
    if s.k == "UnaryOperator" and s.j.get("op") in ("++", "--"):
        return render(s.children[0]), (1 if s.j["op"] == "++" else -1)
    if s.k == "CompoundAssignOperator" and s.j.get("op") in ("+=", "-=") and s.children[1].const_value() == 1:
        return render(s.children[0]), (1 if s.j["op"] == "+=" else -1)
    return None, 0


def for_shape(loop):
    """shape of `for (init; cond; inc)`"""
    sh = LoopShape(loop)
    if loop.k != "ForStmt":
        sh.why = "not a for statement"
        return sh
    init, cond, inc = loop.child("init"), loop.child("cond"), loop.child("inc")
    if cond is None or inc is None:
        sh.why = "missing condition or increment"
        return sh
    var, step = _step_of(inc)
    if var is None:
        # comma expression `i++, j++`: take the variable used in the condition
        i2 = inc.strip()
        if i2.k == "BinaryOperator" and i2.j.get("op") == ",":
            for part in i2.children:
                v, s = _step_of(part)
                if v is not None and v in render(cond):
                    var, step = v, s
        if var is None:
            sh.why = "increment %s not recognised" % render(inc)
            return sh
    sh.var, sh.step = var, step
    c = cond.strip()
    if c.k != "BinaryOperator" or c.j.get("op") not in ("<", "<=", ">", ">=", "!="):
        sh.why = "condition %s not a comparison" % render(cond)
        return sh
    l, r = render(c.children[0]), render(c.children[1])
    op = c.j["op"]
    # `i + c < n`  is  `i < n - c`  (written that way so that n - c cannot wrap around)
    l0 = c.children[0].strip()
    if l != var and l0.k == "BinaryOperator" and l0.j.get("op") == "+" and op in ("<", "<="):
        a0, b0 = l0.children[0].strip(), l0.children[1].strip()
        if render(a0) == var and b0.const_value() is not None and b0.const_value() > 0:
            l, r = var, "%s - %d" % (r, b0.const_value())
            sh.bound_offset = b0.const_value()
    if l == var:
        sh.cmp, sh.bound = op, r
    elif r == var:
        sh.cmp, sh.bound = {"<": ">", ">": "<", "<=": ">=", ">=": "<=", "!=": "!="}[op], l
    else:
        sh.why = "condition %s does not test %s" % (render(cond), var)
        return sh
    # start value
    if init is not None:
        i = init.strip()
        if i.k == "DeclStmt":
            for d in i.j.get("decls", []):
                if d["name"] == var and d.get("init", -1) >= 0:
                    sh.start_node = loop.fn.nodes[d["init"]]
        elif i.k == "BinaryOperator" and i.j.get("op") == "=" and render(i.children[0]) == var:
            sh.start_node = i.children[1]
        elif i.k == "BinaryOperator" and i.j.get("op") == ",":
            for part in i.children:
                p = part.strip()
                if p.k == "BinaryOperator" and p.j.get("op") == "=" and render(p.children[0]) == var:
                    sh.start_node = p.children[1]
    if sh.start_node is None:
        sh.why = "start of %s not found" % var
        return sh
    sh.start = render(sh.start_node)
    # writes to the induction variable inside the body disturb the shape
    body = loop.child("body")
    if body is not None:
        for n in body.walk():
            v, s = _step_of(n)
            if v == var:
                sh.why = "%s is also changed in the loop body" % var
                return sh
            if n.k == "BinaryOperator" and n.j.get("op") == "=" and render(n.children[0]) == var:
                sh.why = "%s is assigned in the loop body (%s)" % (var, render(n))
                sh.assigned_in_body = n
                return sh
    if (step > 0 and sh.cmp in ("<", "<=", "!=")) or (step < 0 and sh.cmp in (">", ">=", "!=")):
        sh.ok = True
    else:
        sh.why = "step %+d moves away from the bound (%s %s %s)" % (step, var, sh.cmp, sh.bound)
    return sh


def same_count(loop, text, want):
    """is the bound text `want`, or a local that was set once to `want` (possibly through a cast: size_t n = (size_t) kf->group_count)?"""
    if text == want:
        return True
    fn = loop.fn
    defs = []
    for n in fn.walk():
        if n.k == "DeclStmt":
            for d in n.j.get("decls", []):
                if d["name"] == text and d.get("init", -1) >= 0:
                    defs.append(fn.nodes[d["init"]])
        elif n.k == "BinaryOperator" and n.j.get("op") == "=" and render(n.children[0]) == text:
            defs.append(n.children[1])
        elif (n.k == "UnaryOperator" and n.j.get("op") in ("++", "--") or n.k == "CompoundAssignOperator") and render(n.children[0]) == text:
            return False
    return len(defs) == 1 and render(defs[0].strip()) == want


def covers_range(sh, lo, hi_render):
    """ascending [lo, hi): start == lo, cmp '<', bound == hi (or a local copy of hi)"""
    return sh.ok and sh.step > 0 and sh.start_node.const_value() == lo and sh.cmp == "<" and same_count(sh.node, sh.bound, hi_render)


def index_shape(loop):
    """for_shape, extended to `i = start; while (... && i < B && ...) { ...; i++; }` (and for loops whose condition
    carries further conjuncts).  Further conjuncts are kept in .extra (they can only end the loop earlier)."""
    sh = for_shape(loop) if loop.k == "ForStmt" else LoopShape(loop)
    if sh.ok:
        sh.extra = []
        return sh
    from .dataflow import ReachingDefs
    fn = loop.fn
    cond = loop.child("cond")
    if cond is None or loop.k not in ("WhileStmt", "ForStmt"):
        return sh

    def conj(e):
        e2 = e.strip()
        if e2.k == "BinaryOperator" and e2.j.get("op") == "&&":
            return conj(e2.children[0]) + conj(e2.children[1])
        return [e2]
    parts = conj(cond)
    movers = {}
    scope = [loop.child("body")] + ([loop.child("inc")] if loop.k == "ForStmt" else [])
    for part in scope:
        for n in (part.walk() if part is not None else []):
            v, st = _step_of(n)
            if v is not None:
                movers.setdefault(v, []).append((n, st))
            if n.k == "BinaryOperator" and n.j.get("op") == "=" and n.children[0].strip().k == "DeclRefExpr":
                movers.setdefault(render(n.children[0]), []).append((n, 0))
    for c in parts:
        if c.k != "BinaryOperator" or c.j.get("op") not in ("<", "<=", ">", ">="):
            continue
        l, r, op = render(c.children[0]), render(c.children[1]), c.j["op"]
        for var, bound, cmp_ in ((l, r, op), (r, l, {"<": ">", ">": "<", "<=": ">=", ">=": "<="}[op])):
            ms = movers.get(var, [])
            if len(ms) != 1 or ms[0][1] == 0:
                continue
            step = ms[0][1]
            if not ((step > 0 and cmp_ in ("<", "<=")) or (step < 0 and cmp_ in (">", ">="))):
                continue
            cfg = fn.cfg
            hb = cfg.loop_header(loop)
            nl = cfg.natural_loop(hb)
            mb = cfg.block_of(ms[0][0])
            # every round passes the step
            seen, work, every = set(), [s2 for (b, i2, s2) in cfg.edges() if b == hb and s2 in nl], True
            while work:
                b = work.pop()
                if b == hb:
                    every = False
                    break
                if b in seen or b == mb:
                    continue
                seen.add(b)
                work.extend(s2 for (bb, i2, s2) in cfg.edges() if bb == b and s2 in nl)
            if not every and hb != mb:
                continue
            rd = ReachingDefs(fn)
            init = loop.child("init") if loop.k == "ForStmt" else None
            ds = [d for d in rd.reaching(var, cond) if d.node is None or not d.node.within(loop) or (init is not None and d.node.within(init))]
            ds = [d for d in ds if d.kind in ("init", "assign")]
            if len(ds) != 1 or ds[0].rhs is None:
                continue
            sh.var, sh.step, sh.cmp, sh.bound = var, step, cmp_, bound
            sh.bound_node = c.children[1] if bound == r else c.children[0]
            sh.start_node, sh.start = ds[0].rhs, render(ds[0].rhs)
            sh.extra = [x for x in parts if x is not c]
            sh.ok = True
            sh.why = ""
            return sh
    return sh


class Traversal:
    """one array walked by a loop: elements base[lo .. hi) in steps of `step`; `elems` are the expressions that denote
    the current element inside the body (base[i], *p, a local loaded from *p++ ...)"""
    def __init__(self, loop, base, lo, hi, step, elems, var, ptr):
        self.loop, self.base, self.lo, self.hi, self.step, self.elems, self.var, self.ptr = loop, base, lo, hi, step, elems, var, ptr

    def covers(self, base, hi, lo="0"):
        return self.base == base and same_count(self.loop, self.hi, hi) and self.lo == lo and self.step > 0

    def describe(self):
        return "%s %s[%s .. %s) by %s `%s`" % ("ascending" if self.step > 0 else "descending", self.base, self.lo, self.hi,
                                                "pointer" if self.ptr else "index", self.var)

    def is_elem(self, text, field=None):
        """does the rendered expression denote the current element (or its field)?"""
        for e in self.elems:
            if field is None and text == e:
                return True
            if field is not None and text in ("%s.%s" % (e, field), "%s->%s" % (e.lstrip("*") if e.startswith("*") else e, field), "(%s).%s" % (e, field)):
                return True
        return False


def traversals(loop):
    """the arrays a loop walks (possibly several with an index loop, one with a pointer loop); [] when not recognised"""
    from .dataflow import ReachingDefs
    fn = loop.fn
    out = []
    sh = index_shape(loop)
    body = loop.child("body")
    if sh.ok:
        bases = {}
        for x in loop.walk():
            if x.k == "ArraySubscriptExpr" and render(x.children[1]) == sh.var:
                bases.setdefault(render(x.children[0]), None)
        ptrvar = any(n.k == "DeclRefExpr" and n.j.get("name") == sh.var and (n.j.get("ct") or "").endswith("*") for n in loop.walk())
        if not ptrvar:
            for b in bases:
                out.append(Traversal(loop, b, sh.start if sh.step > 0 else sh.bound, sh.bound if sh.step > 0 else sh.start, sh.step,
                                     {"%s[%s]" % (b, sh.var)}, sh.var, False))
            if out or not bases:
                return out
    # pointer walk:  p = BASE; end = BASE + COUNT;  while (p < end) / for (; p != end; p++)
    cond = loop.child("cond")
    if cond is None:
        return out
    rd = ReachingDefs(fn)

    def conj(e):
        e2 = e.strip()
        if e2.k == "BinaryOperator" and e2.j.get("op") == "&&":
            return conj(e2.children[0]) + conj(e2.children[1])
        return [e2]

    def single_def(name):
        ds = [d for d in rd.defs if d.var == name and d.kind in ("init", "assign") and d.rhs is not None]
        return ds[0].rhs if len(ds) == 1 else None
    for c in conj(cond):
        if c.k != "BinaryOperator" or c.j.get("op") not in ("<", "!=", ">"):
            continue
        a, b = c.children[0].strip(), c.children[1].strip()
        if c.j["op"] == ">":
            a, b = b, a
        if a.k != "DeclRefExpr" or not (a.j.get("ct") or "").endswith("*"):
            continue
        p = a.j["name"]
        movers = [x for x in loop.walk() if x.k == "UnaryOperator" and x.j.get("op") == "++" and render(x.children[0]) == p]
        others = [x for x in loop.walk() if (x.k == "UnaryOperator" and x.j.get("op") == "--" and render(x.children[0]) == p) or
                  (x.k in ("BinaryOperator", "CompoundAssignOperator") and x.j.get("op") in ("=", "+=", "-=") and render(x.children[0]) == p
                   and not (loop.k == "ForStmt" and loop.child("init") is not None and x.within(loop.child("init"))))]
        if len(movers) != 1 or others:
            continue
        cfg = fn.cfg
        hb = cfg.loop_header(loop)
        mb = cfg.block_of(movers[0])
        nl = cfg.natural_loop(hb)
        seen, work, every = set(), [s2 for (bb, i2, s2) in cfg.edges() if bb == hb and s2 in nl], True
        while work:
            bb = work.pop()
            if bb == hb:
                every = False
                break
            if bb in seen or bb == mb:
                continue
            seen.add(bb)
            work.extend(s2 for (b3, i2, s2) in cfg.edges() if b3 == bb and s2 in nl)
        if not every and hb != mb:
            continue
        starts = [d for d in rd.reaching(p, cond) if d.node is None or not d.node.within(loop) or
                  (loop.k == "ForStmt" and loop.child("init") is not None and d.node.within(loop.child("init")))]
        starts = [d for d in starts if d.kind in ("init", "assign")]
        if len(starts) != 1 or starts[0].rhs is None:
            continue
        base = render(starts[0].rhs)
        end = b
        if end.k == "DeclRefExpr" and end.j.get("dk") == "local":
            r = single_def(end.j["name"])
            if r is None:
                continue
            end = r.strip()
        if end.k != "BinaryOperator" or end.j.get("op") != "+":
            continue
        e0, e1 = render(end.children[0]), render(end.children[1])
        if e0 == p:
            e0 = base           # end = p + COUNT computed before the loop, when p still is the base
        if e0 != base:
            continue
        elems = {"*" + p}
        for d in rd.defs:
            if d.kind in ("init", "assign") and d.rhs is not None and d.node is not None and d.node.within(loop):
                t = render(d.rhs)
                if t in ("*%s++" % p, "*%s" % p, "*(%s++)" % p) and len([x for x in rd.defs if x.var == d.var and x.kind in ("init", "assign", "update")]) == 1:
                    elems.add(d.var)
        out.append(Traversal(loop, base, "0", e1, 1, elems, p, True))
    return out


def carried_locals(loop, ignore=()):
    """Locals whose value at the start of a round of `loop` may stem from an earlier round and is read before it is set again:
    [(name, def node, use node)].  The loop's own counter and names in `ignore` are left out.  (Variables declared inside
    the loop body start afresh every round and never qualify.)"""
    from .dataflow import ReachingDefs
    fn = loop.fn
    cfg = fn.cfg
    hb = cfg.loop_header(loop)
    back = set((b, i) for (b, i, s) in cfg.back_edges() if s == hb)
    sh = index_shape(loop) if loop.k in ("ForStmt", "WhileStmt") else None
    skip = set(ignore) | ({sh.var} if sh is not None and sh.ok else set())
    rd = ReachingDefs(fn)
    cond = loop.child("cond")
    entry = cfg.loop_body_entry(loop)
    out = []
    declared_inside = set()
    for n in loop.walk():
        if n.k == "DeclStmt":
            for d in n.j.get("decls", []):
                declared_inside.add(d.get("did"))
    names = {}
    for n in loop.walk():
        if n.k == "DeclRefExpr" and n.j.get("dk") == "local" and n.j.get("did") not in declared_inside and n.j.get("name") not in skip:
            names.setdefault(n.j["name"], []).append(n)
    for v, refs in sorted(names.items()):
        at = cond if cond is not None else refs[0]
        ds_in = [d for d in rd.reaching(v, at) if d.node is not None and d.node.within(loop)]
        if not ds_in:
            continue
        defblocks = set(cfg.block_of(d.node) for d in rd.defs if d.var == v and d.node is not None and d.node.within(loop))
        reach = cfg.reachable(entry, avoid_blocks=defblocks - {entry}, avoid_edges=back)
        for u in refs:
            up = u.up()
            if up is not None and up.k == "BinaryOperator" and up.j.get("op") == "=" and up.children[0].strip() is u:
                continue        # a plain store, not a read
            if up is not None and up.k == "UnaryOperator" and up.j.get("op") == "&":
                continue
            ub = cfg.block_of(u)
            first = ub in reach or ub == entry
            if ub in defblocks:
                # read before the definition inside the same block?
                dn = [d.node for d in rd.defs if d.var == v and d.node is not None and cfg.block_of(d.node) == ub]
                preds_ok = ub == entry or any(p in reach for p in cfg.blocks[ub].preds if (p, cfg.blocks[p].succs.index(ub)) not in back)
                first = preds_ok and all(cfg.index_of(u) < cfg.index_of(x) for x in dn)
            if first and any(d in rd.reaching(v, u) for d in ds_in):
                out.append((v, ds_in[0].node, u))
                break
    return out
