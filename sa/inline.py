"""Virtual inlining of helper functions (JSON -> JSON on the extractor's facts).

Rules are anchored on the functions that existed when they were confirmed by hand
(rules/tables/anchors.json).  A maintainer may later extract part of such a function into a
new static helper.  To keep the rules' view stable, every call to a static function that is
NOT an anchor is replaced by the helper's body: its statement tree is attached next to the
call, its CFG blocks are spliced into the caller's CFG, parameters are replaced by the
argument expressions (or bound to fresh locals when that would be unsound), `return e`
becomes an assignment to a fresh result variable followed by a jump to the continuation.

The ReturnStmt nodes of the helper are kept (marked `inlined_from`), so a rule that looks for
`return ECONF_X` still finds it - now with the caller's path conditions in front of it."""
import copy

KEYED = ("cond", "then", "else", "body", "init", "inc")
SIDE_EFFECT_KINDS = ("CallExpr", "CompoundAssignOperator", "StmtExpr")


def _is_pure(nodes, nid, depth=0):
    n = nodes[nid]
    k = n["k"]
    if k in SIDE_EFFECT_KINDS:
        return False
    if k == "BinaryOperator" and n.get("op") in ("=", ","):
        return False
    if k == "UnaryOperator" and n.get("op") in ("++", "--"):
        return False
    return all(_is_pure(nodes, c, depth + 1) for c in n.get("ch", []) if c >= 0)


def _subtree(nodes, nid, acc=None):
    acc = acc if acc is not None else []
    acc.append(nid)
    for c in nodes[nid].get("ch", []):
        if c >= 0:
            _subtree(nodes, c, acc)
    for key in KEYED:
        c = nodes[nid].get(key, -1)
        if isinstance(c, int) and c >= 0 and c not in acc:
            _subtree(nodes, c, acc)
    for d in nodes[nid].get("decls", []) or []:
        c = d.get("init", -1)
        if isinstance(c, int) and c >= 0 and c not in acc:
            _subtree(nodes, c, acc)
    return acc


def _clone_subtree(nodes, root, out_nodes):
    """deep copy of the subtree rooted at `root` appended to out_nodes; returns the new root id"""
    ids = _subtree(nodes, root)
    mapping = {}
    for old in ids:
        mapping[old] = len(out_nodes) + len(mapping)
    for old in ids:
        n = copy.deepcopy(nodes[old])
        n["id"] = mapping[old]
        n["ch"] = [mapping.get(c, c) for c in n.get("ch", [])]
        for key in KEYED:
            if isinstance(n.get(key), int) and n[key] >= 0:
                n[key] = mapping.get(n[key], n[key])
        for d in n.get("decls", []) or []:
            if isinstance(d.get("init"), int) and d["init"] >= 0:
                d["init"] = mapping.get(d["init"], d["init"])
        out_nodes.append(n)
    return mapping[root]


def _params_modified(fj):
    names = set(p["name"] for p in fj["params"])
    mod = set()
    nodes = fj["nodes"]
    for n in nodes:
        if n is None:
            continue
        tgt = None
        if n["k"] == "BinaryOperator" and n.get("op") == "=":
            tgt = n["ch"][0]
        elif n["k"] == "CompoundAssignOperator" or (n["k"] == "UnaryOperator" and n.get("op") in ("++", "--", "&")):
            tgt = n["ch"][0]
        while tgt is not None and tgt >= 0:
            t = nodes[tgt]
            if t["k"] in ("ParenExpr", "ImplicitCastExpr", "CStyleCastExpr") and t.get("ch"):
                tgt = t["ch"][0]
                continue
            if t["k"] == "DeclRefExpr" and t.get("dk") == "param" and t.get("name") in names:
                mod.add(t["name"])
            break
    return mod


def inline_call(caller, callee, call_id, seq):
    """returns a new caller JSON with the call node `call_id` (a direct call to `callee`) inlined"""
    cj = copy.deepcopy(caller)
    nodes = cj["nodes"]
    hname = callee["name"]
    tag = "%s$%d" % (hname, seq)
    off = len(nodes)
    # ---- clone callee nodes ------------------------------------------------------------------
    cmap = {}
    for n in callee["nodes"]:
        if n is None:
            continue
        cmap[n["id"]] = off + len(cmap)
    for n in callee["nodes"]:
        if n is None:
            continue
        m = copy.deepcopy(n)
        m["id"] = cmap[n["id"]]
        m["ch"] = [cmap.get(c, -1) for c in m.get("ch", []) if c >= 0]
        for key in KEYED:
            if isinstance(m.get(key), int) and m[key] >= 0:
                m[key] = cmap.get(m[key], -1)
        if "synthetic_of" in m:
            m["synthetic_of"] = cmap.get(m["synthetic_of"], -1)
        for d in m.get("decls", []) or []:
            if isinstance(d.get("init"), int) and d["init"] >= 0:
                d["init"] = cmap.get(d["init"], -1)
            d["name"] = "%s.%s" % (tag, d["name"])
            d["did"] = d.get("did", 0) + 100000 * (seq + 1)
        m["inlined_from"] = hname
        nodes.append(m)
    call = nodes[call_id]
    arg_ids = call["ch"][1:]
    modified = _params_modified(callee)
    prologue = []          # synthetic assignment node ids evaluated at the helper's entry
    # ---- parameters ------------------------------------------------------------------------------
    for pi, p in enumerate(callee["params"]):
        if pi >= len(arg_ids):
            continue
        arg = arg_ids[pi]
        substitute = _is_pure(nodes, arg) and p["name"] not in modified
        refs = [n for n in nodes[off:] if n["k"] == "DeclRefExpr" and n.get("dk") == "param" and n.get("name") == p["name"]]
        if substitute:
            for r in refs:
                new_root = _clone_subtree(nodes, arg, nodes)
                src = nodes[new_root]
                keep_id = r["id"]
                r.clear()
                r.update(copy.deepcopy(src))
                r["id"] = keep_id
                r["inlined_from"] = hname
        else:
            lname = "%s.%s" % (tag, p["name"])
            for r in refs:
                r["name"] = lname
                r["dk"] = "local"
            # synthetic  lname = <arg>
            lhs = {"id": len(nodes), "k": "DeclRefExpr", "name": lname, "dk": "local", "did": 900000 + 1000 * seq + pi, "ch": [],
                   "t": p.get("t"), "ct": p.get("ct"), "lv": True, "line": call.get("line"), "col": call.get("col"), "inlined_from": hname}
            nodes.append(lhs)
            asg = {"id": len(nodes), "k": "BinaryOperator", "op": "=", "ch": [lhs["id"], arg], "t": p.get("t"), "ct": p.get("ct"), "lv": False,
                   "line": call.get("line"), "col": call.get("col"), "inlined_from": hname, "synthetic": "param"}
            nodes.append(asg)
            prologue.append(asg["id"])
    # ---- locals of the helper: rename references -----------------------------------------------------
    local_names = set()
    for n in callee["nodes"]:
        if n and n["k"] == "DeclStmt":
            for d in n.get("decls", []):
                local_names.add(d["name"])
    for n in nodes[off:]:
        if n["k"] == "DeclRefExpr" and n.get("dk") in ("local", "static_local") and n.get("name") in local_names and n.get("inlined_from") == hname \
                and "." not in n.get("name", ""):
            n["name"] = "%s.%s" % (tag, n["name"])
            n["did"] = n.get("did", 0) + 100000 * (seq + 1)
    # ---- result variable -------------------------------------------------------------------------------
    ret_t = callee.get("ret", {})
    void = ret_t.get("ct") in (None, "void")
    retname = "%s.$ret" % tag
    ret_assign = {}
    for n in nodes[off:]:
        if n["k"] == "ReturnStmt" and n.get("inlined_from") == hname:
            n["inlined_return"] = True      # `return;` of a void helper too: not an exit of the caller
    if not void:
        for n in list(nodes[off:]):
            if n["k"] == "ReturnStmt" and n.get("inlined_from") == hname and n.get("ch"):
                lhs = {"id": len(nodes), "k": "DeclRefExpr", "name": retname, "dk": "local", "did": 950000 + seq, "ch": [], "t": ret_t.get("t"),
                       "ct": ret_t.get("ct"), "lv": True, "line": n.get("line"), "col": n.get("col"), "inlined_from": hname}
                nodes.append(lhs)
                asg = {"id": len(nodes), "k": "BinaryOperator", "op": "=", "ch": [lhs["id"], n["ch"][0]], "t": ret_t.get("t"), "ct": ret_t.get("ct"),
                       "lv": False, "line": n.get("line"), "col": n.get("col"), "inlined_from": hname, "synthetic": "return"}
                nodes.append(asg)
                ret_assign[n["id"]] = asg["id"]
                n["inlined_return"] = True
                n["ch"] = [asg["id"]]       # reachable by tree walks: return e  ==>  return (h.ret = e)
    # ---- the call expression becomes the result variable --------------------------------------------------
    old_call = copy.deepcopy(call)
    call.clear()
    if void:
        call.update({"id": call_id, "k": "NullStmt", "ch": [], "line": old_call.get("line"), "col": old_call.get("col"), "inlined_call": hname})
    else:
        call.update({"id": call_id, "k": "DeclRefExpr", "name": retname, "dk": "local", "did": 950000 + seq, "ch": [], "t": old_call.get("t"),
                     "ct": old_call.get("ct"), "lv": False, "line": old_call.get("line"), "col": old_call.get("col"), "inlined_call": hname,
                     "w": old_call.get("w"), "sg": old_call.get("sg")})
    # ---- attach the helper's body to the caller's tree (next to the statement containing the call) -----------
    parent = {}
    for n in nodes:
        if n is None:
            continue
        for c in n.get("ch", []):
            if c >= 0 and c not in parent:
                parent[c] = n["id"]
    body_id = cmap.get(callee["body"], -1)
    wrapper = {"id": len(nodes), "k": "InlinedBody", "ch": [x for x in prologue] + ([body_id] if body_id >= 0 else []), "helper": hname,
               "line": old_call.get("line"), "col": old_call.get("col"), "inlined_from": hname}
    nodes.append(wrapper)
    cur = call_id
    placed = False
    while cur in parent:
        p = parent[cur]
        pk = nodes[p]["k"]
        if pk == "CompoundStmt":
            ch = nodes[p]["ch"]
            ch.insert(ch.index(cur), wrapper["id"])
            placed = True
            break
        if pk in ("WhileStmt", "ForStmt", "DoStmt", "IfStmt"):
            role = [key for key in ("body", "then", "else", "cond", "inc", "init") if nodes[p].get(key) == cur]
            if role and role[0] in ("body", "then", "else"):
                # a single-statement body: { <helper body>; <statement> }
                comp = {"id": len(nodes), "k": "CompoundStmt", "ch": [wrapper["id"], cur], "line": nodes[cur].get("line"), "col": nodes[cur].get("col"),
                        "synthetic": "block"}
                nodes.append(comp)
                nodes[p][role[0]] = comp["id"]
                nodes[p]["ch"] = [comp["id"] if c == cur else c for c in nodes[p]["ch"]]
                placed = True
                break
            if role and role[0] in ("cond", "inc") and pk != "IfStmt":
                # evaluated once per round: the helper's statements belong to the loop
                nodes[p]["ch"] = list(nodes[p]["ch"]) + [wrapper["id"]]
                placed = True
                break
        cur = p
    if not placed:
        nodes[cj["body"]]["ch"].insert(0, wrapper["id"])
    # ---- CFG splice -------------------------------------------------------------------------------------------
    cfg = cj.get("cfg")
    hcfg = callee.get("cfg")
    if cfg and hcfg:
        blocks = {b["id"]: b for b in cfg["blocks"]}
        boff = max(blocks) + 1
        # locate the call element
        home = None
        for b in cfg["blocks"]:
            if call_id in b.get("elems", []):
                home = b
                break
        if home is None:
            return cj       # call not evaluated in the CFG (dead code): tree inlining only
        idx = home["elems"].index(call_id)
        post_id = boff
        boff += 1
        post = {"id": post_id, "elems": home["elems"][idx:], "succs": home.get("succs", [])}
        for key in ("term", "termk", "cond", "label", "looptarget"):
            if key in home and key != "label":
                post[key] = home[key]
                if key != "label":
                    home.pop(key, None)
        home["elems"] = home["elems"][:idx]
        if void:
            post["elems"] = post["elems"][1:]       # the former call statement evaluates nothing any more
        hmap = {b["id"]: boff + i for i, b in enumerate(hcfg["blocks"])}
        entry_succ = None
        for b in hcfg["blocks"]:
            nb = {"id": hmap[b["id"]], "elems": [], "succs": []}
            for e in b.get("elems", []):
                ne = cmap.get(e, -1)
                if ne < 0:
                    continue
                if ne in ret_assign:
                    nb["elems"].append(ret_assign[ne])
                nb["elems"].append(ne)
            for key in ("term", "cond", "label", "looptarget"):
                if isinstance(b.get(key), int) and b[key] >= 0:
                    nb[key] = cmap.get(b[key], -1)
            if "termk" in b:
                nb["termk"] = b["termk"]
            for s in b.get("succs", []):
                if s is None:
                    nb["succs"].append(None)
                elif s == hcfg["exit"]:
                    nb["succs"].append(post_id)
                else:
                    nb["succs"].append(hmap[s])
            if b["id"] == hcfg["entry"]:
                entry_succ = nb["succs"][0] if nb["succs"] else post_id
                continue
            if b["id"] == hcfg["exit"]:
                continue
            cfg["blocks"].append(nb)
        # parameter bindings are evaluated in the block that jumps into the helper
        home["elems"] = home["elems"] + prologue
        home["succs"] = [entry_succ if entry_succ is not None else post_id]
        cfg["blocks"].append(post)
    return cj


def inline_helpers(fj, helper_table, max_rounds=6):
    """inline every direct call to a function of helper_table (name -> JSON); returns (new JSON, [names inlined])"""
    done = []
    seq = 0
    for _ in range(max_rounds):
        target = None
        for n in fj["nodes"]:
            if n is None:
                continue
            if n["k"] == "CallExpr" and n.get("callee") in helper_table and n.get("callee") != fj["name"]:
                # reachable from the body?
                target = n
                break
        if target is None:
            break
        # only calls that are part of the live tree
        fj = inline_call(fj, helper_table[target["callee"]], target["id"], seq)
        done.append(target["callee"])
        seq += 1
        if seq > 24:
            break
    return fj, done


def lower_const_conditionals(fj):
    """`x = c ? A : B` and `return c ? A : B` with constant arms (error codes, numbers) are rewritten, in the facts, to what clang's
    CFG already says: the arm blocks get `x = A` and `x = B`, the joined assignment disappears.  Rules that look for "the place
    where ECONF_X is assigned" and for the path condition of that place then treat the conditional expression like an if/else."""
    nodes = fj.get("nodes") or []
    cfg = fj.get("cfg") or {}
    blocks = cfg.get("blocks") or []
    if not nodes or not blocks:
        return 0
    parent = {}
    for n in nodes:
        if n:
            for c in n.get("ch", []):
                if c is not None and c >= 0:
                    parent[c] = n["id"]

    def strip(i):
        while i is not None and i >= 0 and nodes[i] and nodes[i]["k"] in ("ParenExpr", "ImplicitCastExpr", "ConstantExpr") and nodes[i].get("ch"):
            i = nodes[i]["ch"][0]
        return i

    def is_const(i):
        i = strip(i)
        n = nodes[i] if i is not None and i >= 0 else None
        return n is not None and ((n["k"] == "DeclRefExpr" and n.get("dk") == "enum") or n["k"] == "IntegerLiteral")
    done = 0
    seq = 0
    for co in list(nodes):
        if not co or co["k"] != "ConditionalOperator" or "then" not in co or "else" not in co:
            continue
        if not (is_const(co["then"]) and is_const(co["else"])):
            continue
        # the statement the value goes to
        up = parent.get(co["id"])
        while up is not None and nodes[up]["k"] in ("ParenExpr", "ImplicitCastExpr", "ConstantExpr", "CStyleCastExpr"):
            up = parent.get(up)
        if up is None:
            continue
        un = nodes[up]
        target = None
        if un["k"] == "BinaryOperator" and un.get("op") == "=" and strip(un["ch"][1]) == co["id"] and nodes[strip(un["ch"][0])]["k"] == "DeclRefExpr":
            target = dict(nodes[strip(un["ch"][0])])
            holder = un
        elif un["k"] == "ReturnStmt":
            seq += 1
            target = {"k": "DeclRefExpr", "name": "$cv%d" % seq, "dk": "local", "did": 970000 + seq, "ch": [], "t": co.get("t"), "ct": co.get("ct"),
                      "lv": True, "line": co.get("line"), "col": co.get("col"), "synthetic": "cond-value"}
            holder = None
        else:
            continue
        # the arm blocks: the blocks whose element lists end with the arm expression
        arm_blocks = {}
        for b in blocks:
            for which in ("then", "else"):
                if co[which] in b.get("elems", []) or strip(co[which]) in b.get("elems", []):
                    arm_blocks[which] = b
        if len(arm_blocks) != 2 or arm_blocks["then"] is arm_blocks["else"]:
            continue
        new_asg = []
        for which in ("then", "else"):
            lhs = dict(target)
            lhs["id"] = len(nodes)
            lhs["ch"] = []
            nodes.append(lhs)
            asg = {"id": len(nodes), "k": "BinaryOperator", "op": "=", "ch": [lhs["id"], co[which]], "t": co.get("t"), "ct": co.get("ct"), "lv": False,
                   "line": nodes[strip(co[which])].get("line", co.get("line")), "col": nodes[strip(co[which])].get("col", co.get("col")),
                   "synthetic": "cond-arm"}
            for k2 in ("inlined_from",):
                if k2 in co:
                    asg[k2] = co[k2]
                    lhs[k2] = co[k2]
            nodes.append(asg)
            arm_blocks[which]["elems"].append(lhs["id"])
            arm_blocks[which]["elems"].append(asg["id"])
            new_asg.append(asg["id"])
        if holder is not None:
            # x = (c ? A : B)   ==>   { x = A; x = B; }   (each in its arm block)
            old_lhs = holder["ch"][0]
            holder["k"] = "CompoundStmt"
            holder["synthetic_of"] = "cond-assign"
            holder.pop("op", None)
            holder["ch"] = list(new_asg)
            dead = [co["id"], old_lhs]
        else:
            # return (c ? A : B)   ==>   return $cv  with $cv assigned in the arms
            ref = dict(target)
            ref["id"] = len(nodes)
            ref["lv"] = False
            nodes.append(ref)
            grp = {"id": len(nodes), "k": "CompoundStmt", "synthetic_of": "cond-return", "ch": list(new_asg), "line": co.get("line"), "col": co.get("col")}
            nodes.append(grp)
            un["ch"] = [ref["id"]]
            # keep the arm assignments reachable by tree walks: hang the group below the return's parent next to it
            pu = parent.get(un["id"])
            if pu is not None and "ch" in nodes[pu]:
                k9 = nodes[pu]["ch"].index(un["id"])
                nodes[pu]["ch"].insert(k9, grp["id"])
                if nodes[pu]["k"] != "CompoundStmt":
                    # a single-statement body: wrap
                    pass
            dead = [co["id"]]
            for b in blocks:
                if un["id"] in b.get("elems", []):
                    b["elems"].insert(b["elems"].index(un["id"]), ref["id"])
        for d in dead:
            dn = nodes[d]
            nodes[d] = {"id": d, "k": "NullStmt", "ch": [], "line": dn.get("line", 0), "col": dn.get("col", 0)}
        done += 1
    return done


def lower_record_literals(fj, records):
    """`*p = (T){ .a = x, .b = y };` / `s = (T){ ... };` as an expression statement is rewritten, in the facts, to the member-wise
    assignments it stands for: `p->a = x; p->b = y;` and `p->f = 0` for every member the literal does not name (C11 6.7.9p21: they
    are initialised like objects of static storage duration).  clang's semantic initialiser list already has one entry per member
    in declaration order.  Rules that ask "where is field f assigned, and what" then read the one-statement form like the long one."""
    nodes = fj.get("nodes") or []
    blocks = (fj.get("cfg") or {}).get("blocks") or []
    if not nodes:
        return 0
    parent = {}
    for n in nodes:
        if n:
            for c in n.get("ch", []):
                if c is not None and c >= 0:
                    parent[c] = n["id"]

    def strip(i):
        while i is not None and i >= 0 and nodes[i] and nodes[i]["k"] in ("ParenExpr", "ImplicitCastExpr", "ConstantExpr", "CStyleCastExpr") and nodes[i].get("ch"):
            i = nodes[i]["ch"][0]
        return i

    def clone(i):
        n = dict(nodes[i])
        n["id"] = len(nodes)
        nodes.append(n)
        n["ch"] = [clone(c) if c is not None and c >= 0 else c for c in nodes[i].get("ch", [])]
        return n["id"]

    def flat(i):
        out = []
        for c in nodes[i].get("ch", []):
            if c is not None and c >= 0:
                out.extend(flat(c))
        out.append(i)
        return out
    done = 0
    for asg in list(nodes):
        if not asg or asg["k"] != "BinaryOperator" or asg.get("op") != "=" or len(asg.get("ch", [])) != 2:
            continue
        up = parent.get(asg["id"])
        if up is None or nodes[up]["k"] not in ("CompoundStmt", "IfStmt", "ForStmt", "WhileStmt", "DoStmt", "LabelStmt", "CaseStmt", "DefaultStmt"):
            continue                                   # the value of the assignment is used
        if nodes[up]["k"] != "CompoundStmt" and nodes[up].get("cond") == asg["id"]:
            continue
        ci = strip(asg["ch"][1])
        if ci is None or ci < 0 or nodes[ci]["k"] != "CompoundLiteralExpr" or not nodes[ci].get("ch"):
            continue
        li = strip(nodes[ci]["ch"][0])
        il = nodes[li]
        if il["k"] != "InitListExpr":
            continue
        tname = (il.get("ct") or "").replace("struct ", "").strip()
        rec = records.get(tname) or records.get(il.get("t"))
        if rec is None or len(rec.get("fields", [])) != len(il.get("ch", [])):
            continue
        lhs = strip(asg["ch"][0]) if nodes[asg["ch"][0]]["k"] == "ParenExpr" else asg["ch"][0]
        ln = nodes[lhs]
        arrow = ln["k"] == "UnaryOperator" and ln.get("op") == "*"
        base = ln["ch"][0] if arrow else lhs
        new_ids, new_elems = [], []
        for fidx, (fld, vi) in enumerate(zip(rec["fields"], il["ch"])):
            vn = nodes[vi]
            if vn["k"] == "ImplicitValueInitExpr":
                zero = {"id": vi, "k": "IntegerLiteral", "val": 0, "cv": 0, "ch": [], "t": fld.get("t"), "ct": fld.get("ct"), "w": fld.get("w"),
                        "lv": False, "line": asg.get("line"), "col": asg.get("col"), "synthetic": "implicit-zero"}
                if (fld.get("ct") or "").endswith("*"):
                    zero["ck"] = "NullToPointer"
                nodes[vi] = zero
            b2 = clone(base)
            mem = {"id": len(nodes), "k": "MemberExpr", "arrow": arrow, "ch": [b2], "member": fld["name"], "rec": rec.get("name") or rec.get("alias"),
                   "fidx": fidx, "t": fld.get("t"), "ct": fld.get("ct"), "w": fld.get("w"), "lv": True,
                   "line": nodes[vi].get("line", asg.get("line")), "col": nodes[vi].get("col", asg.get("col")), "synthetic": "record-literal"}
            if "sg" in fld:
                mem["sg"] = fld["sg"]
            nodes.append(mem)
            a2 = {"id": len(nodes), "k": "BinaryOperator", "op": "=", "ch": [mem["id"], vi], "t": fld.get("t"), "ct": fld.get("ct"), "w": fld.get("w"),
                  "lv": False, "line": mem["line"], "col": mem["col"], "synthetic": "record-literal"}
            nodes.append(a2)
            for k2 in ("inlined_from",):
                if k2 in asg:
                    mem[k2] = asg[k2]
                    a2[k2] = asg[k2]
            new_ids.append(a2["id"])
            new_elems.extend(flat(b2) + [mem["id"], a2["id"]])
        old_lhs_nodes = flat(asg["ch"][0])
        dead = [ci, li] + [x for x in flat(asg["ch"][1]) if x not in il["ch"] and x not in (ci, li) and not any(x in flat(v) for v in il["ch"])] + old_lhs_nodes
        asg["k"] = "CompoundStmt"
        asg["synthetic_of"] = "record-literal"
        asg.pop("op", None)
        asg["ch"] = list(new_ids)
        for b in blocks:
            el = b.get("elems", [])
            if asg["id"] in el:
                k9 = el.index(asg["id"])
                el[k9:k9 + 1] = new_elems
                b["elems"] = [x for x in el if x not in dead]
        for d in dead:
            dn = nodes[d]
            nodes[d] = {"id": d, "k": "NullStmt", "ch": [], "line": dn.get("line", 0), "col": dn.get("col", 0)}
        done += 1
    return done
