"""Testing the checker both ways (thorough tier, DESIGN 3.11): every recipe of selftest/recipes.py for the property and every
seeded change stored under seeded/<property>-*/ is applied to a scratch copy of /repo's CURRENT sources; the property's rule
set must FAIL on it.  Survivors say something about the checker, not about libeconf: they are listed, never a VIOLATION."""
import glob
import json
import os
import shutil
import subprocess
import sys
import tempfile
from concurrent.futures import ThreadPoolExecutor

from .facts import VERIF, REPO, Inconclusive


def _load_recipes():
    sys.path.insert(0, os.path.join(VERIF, "selftest"))
    import importlib
    mod = importlib.import_module("recipes")
    return mod.R


def _copy_repo(dst):
    os.makedirs(dst)
    subprocess.check_call("cd %s && tar cf - --exclude=_build --exclude=.git . | (cd %s && tar xf -)" % (REPO, dst), shell=True)


def _run_check(prop, repo, scratch):
    env = dict(os.environ, VERIF_REPO=repo, VERIF_DB_FROM=REPO, VERIF_NO_EVIDENCE="1", VERIF_REPORT_DIR=os.path.join(scratch, "reports"), VERIF_TIER="quick")
    p = subprocess.run([sys.executable, os.path.join(VERIF, "check"), prop, "--tier", "quick"], capture_output=True, text=True, env=env)
    lines = [l.strip() for l in p.stdout.splitlines() if l.startswith("  ") and not l.startswith("      ")]
    return p.returncode, lines[:3]


def _one(job):
    prop, kind, name, spec = job
    scratch = tempfile.mkdtemp(prefix="econf-selftest-")
    try:
        repo = os.path.join(scratch, "repo")
        _copy_repo(repo)
        if kind == "recipe":
            path = os.path.join(repo, spec["file"])
            try:
                src = open(path).read()
            except OSError:
                return (name, "skipped", "file vanished")
            if src.count(spec["old"]) != 1:
                return (name, "skipped", "anchor matches %d times" % src.count(spec["old"]))
            open(path, "w").write(src.replace(spec["old"], spec["new"]))
        else:
            r = subprocess.run(["patch", "-p1", "-s", "-d", repo, "-i", spec], capture_output=True, text=True)
            if r.returncode != 0:
                return (name, "skipped", "patch does not apply to the current tree")
        # the mutant must type-check
        cc = subprocess.run("clang -fsyntax-only -w -D_GNU_SOURCE -I%s/include %s/lib/*.c %s/util/*.c" % (repo, repo, repo), shell=True, capture_output=True, text=True)
        if cc.returncode != 0:
            return (name, "skipped", "does not compile")
        rc, lines = _run_check(prop, repo, scratch)
        if rc == 1:
            return (name, "killed", lines[0] if lines else "")
        if rc == 2:
            return (name, "inconclusive", "")
        return (name, "survived", "")
    finally:
        shutil.rmtree(scratch, ignore_errors=True)


def _neutral_one(job):
    prop, name, patch = job
    scratch = tempfile.mkdtemp(prefix="econf-neutral-")
    try:
        repo = os.path.join(scratch, "repo")
        _copy_repo(repo)
        r = subprocess.run(["patch", "-p1", "-s", "-d", repo, "-i", patch], capture_output=True, text=True)
        if r.returncode != 0:
            return (name, "skipped", "patch does not apply to the current tree")
        cc = subprocess.run("clang -fsyntax-only -w -D_GNU_SOURCE -I%s/include %s/lib/*.c %s/util/*.c" % (repo, repo, repo), shell=True, capture_output=True, text=True)
        if cc.returncode != 0:
            return (name, "skipped", "does not compile on the current tree")
        rc, lines = _run_check(prop, repo, scratch)
        return (name, {0: "silent", 1: "alarm", 2: "not understood"}.get(rc, "error"), lines[0] if lines else "")
    finally:
        shutil.rmtree(scratch, ignore_errors=True)


def neutral_for(prop, base_ok):
    """the other direction: the rule set must stay silent on the behaviour-preserving refactorings of neutral/ (each applied
    to a scratch copy of the CURRENT tree).  Reported in the evidence and on stdout; never changes the verdict about /repo."""
    jobs = [(prop, os.path.basename(d), os.path.join(d, "patch.diff")) for d in sorted(glob.glob(os.path.join(VERIF, "neutral", "*")))
            if os.path.exists(os.path.join(d, "patch.diff"))]
    if not jobs:
        return {}
    with ThreadPoolExecutor(max_workers=16) as ex:
        results = list(ex.map(_neutral_one, jobs))
    applied = [r for r in results if r[1] != "skipped"]
    silent = [r for r in applied if r[1] == "silent"]
    print("selftest-neutral property=%s refactorings=%d applied=%d silent=%d alarms=%d not-understood=%d%s" % (
        prop, len(jobs), len(applied), len(silent), len([r for r in applied if r[1] == "alarm"]),
        len([r for r in applied if r[1] == "not understood"]), "" if base_ok else " (the unrefactored tree itself is not clean: alarms are expected)"))
    if base_ok:
        for r in applied:
            if r[1] == "alarm":
                print("SELFTEST-FALSE-ALARM property=%s refactoring=%s %s" % (prop, r[0], r[2][:160]))
    return {"neutral_refactorings": len(jobs), "neutral_applied": len(applied), "neutral_silent": len(silent),
            "neutral_not_silent": [(r[0], r[1]) for r in applied if r[1] != "silent"]}


def run_for(prop, prog, ctx):
    jobs = []
    for rcp in _load_recipes():
        if rcp["prop"] == prop:
            jobs.append((prop, "recipe", "recipe: " + rcp["name"], rcp))
    for d in sorted(glob.glob(os.path.join(VERIF, "seeded", "*"))):
        meta = os.path.join(d, "meta.json")
        if not os.path.exists(meta):
            continue
        m = json.load(open(meta))
        if m.get("breaks_property") == prop:
            jobs.append((prop, "seed", "seeded: " + os.path.basename(d), os.path.join(d, "patch.diff")))
    if not jobs:
        return {"mutants_applied": 0, "mutants_killed": 0, "selftest_note": "no recipes for this property"}
    with ThreadPoolExecutor(max_workers=16) as ex:
        results = list(ex.map(_one, jobs))
    applied = [r for r in results if r[1] != "skipped"]
    killed = [r for r in applied if r[1] == "killed"]
    survivors = [r for r in applied if r[1] == "survived"]
    inconcl = [r for r in applied if r[1] == "inconclusive"]
    for r in survivors:
        print("SELFTEST-SURVIVOR property=%s mutant=%s" % (prop, r[0]))
    for r in inconcl:
        print("SELFTEST-INCONCLUSIVE property=%s mutant=%s" % (prop, r[0]))
    if applied and not killed:
        ctx.inconclusive("selftest", "self-test corpus", "", "none of the %d applicable mutants is detected: the rule set has gone blind" % len(applied))
    print("selftest property=%s mutants=%d applied=%d killed=%d survivors=%d inconclusive=%d skipped=%d" % (
        prop, len(jobs), len(applied), len(killed), len(survivors), len(inconcl), len(results) - len(applied)))
    from . import report as _rep
    base_ok = not any(o.outcome == _rep.FAIL and not _rep.known_match(prop, o, _rep.load_known()) for o in ctx.obs) and \
        not any(o.outcome == _rep.INCONCLUSIVE for o in ctx.obs)
    neutral = neutral_for(prop, base_ok)
    return {
        **neutral,
        "mutants_total": len(jobs), "mutants_applied": len(applied), "mutants_killed": len(killed),
        "mutants_survived": [r[0] for r in survivors], "mutants_inconclusive": [r[0] for r in inconcl],
        "mutants_skipped": [(r[0], r[2]) for r in results if r[1] == "skipped"],
        "mutant_samples": [{"mutant": r[0], "first_report": r[2][:200]} for r in killed[:6]],
    }
