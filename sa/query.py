"""Small whole-program queries shared by the rules (E-cg who-may-call, global reads/writes,
constant returns ...)."""
from .ast import render
from .facts import Inconclusive

GLOBAL_KINDS = ("global", "static_global", "static_local")


def callers_of(prog, callee, util=False):
    """[(function, call node)] for every direct call to callee in lib (or util)."""
    out = []
    tab = prog.util_functions if util else prog.functions
    for f in tab.values():
        for c in f.calls(callee):
            out.append((f, c))
    return out


def lvalue_root(n):
    """Root DeclRefExpr of an lvalue/pointer expression and the selector chain."""
    sel = []
    cur = n.strip()
    while True:
        if cur.k == "MemberExpr":
            sel.append("->" + cur.j["member"] if cur.j.get("arrow") else "." + cur.j["member"])
            cur = cur.children[0].strip()
        elif cur.k == "ArraySubscriptExpr":
            sel.append("[]")
            cur = cur.children[0].strip()
        elif cur.k == "UnaryOperator" and cur.j.get("op") in ("*", "&"):
            sel.append(cur.j["op"])
            cur = cur.children[0].strip()
        elif cur.k == "BinaryOperator" and cur.j.get("op") in ("+", "-") and cur.j.get("ct", "").endswith("*"):
            # pointer arithmetic: follow the pointer operand
            a, b = cur.children[0].strip(), cur.children[1].strip()
            cur = a if a.j.get("ct", "").endswith("*") or a.j.get("ct", "").endswith("]") else b
            sel.append("+k")
        elif cur.k == "UnaryOperator" and cur.j.get("op") in ("++", "--"):
            cur = cur.children[0].strip()
        elif cur.k == "DeclRefExpr":
            sel.reverse()
            return cur, sel
        else:
            sel.reverse()
            return None, sel


def stores(fn):
    """Every store in fn: (lhs node, rhs node or None, stmt node, kind) with kind in
    '=', 'op=', '++'."""
    out = []
    for n in fn.walk():
        if n.k == "BinaryOperator" and n.j.get("op") == "=":
            out.append((n.children[0], n.children[1], n, "="))
        elif n.k == "CompoundAssignOperator":
            out.append((n.children[0], n.children[1], n, "op="))
        elif n.k == "UnaryOperator" and n.j.get("op") in ("++", "--"):
            out.append((n.children[0], None, n, "++"))
    return out


def global_writes(fn):
    """{global name: [(lhs, rhs, stmt)]} direct stores into objects with static storage,
    including element/field stores (root is the global) and address-taken uses."""
    out = {}
    for lhs, rhs, st, kind in stores(fn):
        root, sel = lvalue_root(lhs)
        if root is not None and root.j.get("dk") in GLOBAL_KINDS:
            out.setdefault(root.j["name"], []).append((lhs, rhs, st))
    return out


def global_refs(fn):
    """{global name: [DeclRefExpr nodes]}."""
    out = {}
    for n in fn.walk():
        if n.k == "DeclRefExpr" and n.j.get("dk") in GLOBAL_KINDS:
            out.setdefault(n.j["name"], []).append(n)
    return out


def is_write_context(ref):
    """Is this DeclRefExpr (of an array/scalar global) used as a store destination, passed as
    writable pointer (decays into a call argument / address taken)?  Returns a short
    description or None for plain reads."""
    p = ref.parent
    cur = ref
    while p is not None:
        if p.k in ("ParenExpr",):
            cur, p = p, p.parent
            continue
        if p.k == "ImplicitCastExpr":
            if p.j.get("ck") == "LValueToRValue":
                return None
            cur, p = p, p.parent
            continue
        if p.k in ("MemberExpr", "ArraySubscriptExpr") and p.children[0] is cur:
            cur, p = p, p.parent
            continue
        if p.k == "BinaryOperator" and p.j.get("op") == "=" and p.children[0] is cur:
            return "assigned"
        if p.k == "CompoundAssignOperator" and p.children[0] is cur:
            return "compound-assigned"
        if p.k == "UnaryOperator" and p.j.get("op") in ("++", "--"):
            return "incremented"
        if p.k == "UnaryOperator" and p.j.get("op") == "&":
            return "address taken"
        if p.k == "CallExpr":
            return "passed to %s" % (p.j.get("callee") or "indirect call")
        if p.k == "UnaryExprOrTypeTraitExpr":
            return None
        return None
    return None


def returned_constant(ret):
    """Name of the enumerator (or integer) a ReturnStmt returns, else None."""
    if not ret.children:
        return None
    e = ret.children[0].strip()
    if e.k == "BinaryOperator" and e.j.get("synthetic") == "return":
        e = e.children[1].strip()
    if e.k == "DeclRefExpr" and e.j.get("dk") == "enum":
        return e.j["name"]
    if e.k == "IntegerLiteral":
        return e.j.get("val")
    return None


def returned_constant_expr(e):
    e = e.strip()
    if e.k == "DeclRefExpr" and e.j.get("dk") == "enum":
        return e.j["name"]
    if e.k == "IntegerLiteral":
        return e.j.get("val")
    return None


def returns_of_constant(fn, name):
    """returns of the constant, including those of virtually inlined helpers (whose value the caller hands on)"""
    return [r for r in fn.returns(inlined=True) if returned_constant(r) == name]


def unique_call(fn, callee):
    cs = fn.calls(callee)
    if len(cs) != 1:
        raise Inconclusive("expected exactly one call to %s in %s, found %d" % (callee, fn.name, len(cs)))
    return cs[0]


def refs_param(node, pname):
    s = node.strip()
    return s.k == "DeclRefExpr" and s.j.get("dk") == "param" and s.j.get("name") == pname


def mentions(node, pred):
    for n in node.walk():
        if pred(n):
            return True
    return False


def mentions_name(node, name):
    return mentions(node, lambda n: n.k == "DeclRefExpr" and n.j.get("name") == name)


def is_slot_init(st):
    """`A[i].f = 0 / NULL / false` inside a loop that counts `i`: the (re)initialisation of a run of slots - of a reserve
    behind the used entries, of a freshly allocated array - not a statement about "the" entry a rule is looking at."""
    from .ast import render as _r
    if st.k != "BinaryOperator" or st.j.get("op") != "=" or len(st.children) < 2:
        return False
    rhs = st.children[1]
    if not (rhs.is_null_const() or rhs.const_value() == 0):
        return False
    l = st.children[0].strip()
    while l.k == "MemberExpr" and l.children:
        l = l.children[0].strip()
    if l.k != "ArraySubscriptExpr":
        return False
    idx = l.children[1].strip()
    if idx.k != "DeclRefExpr":
        return False
    from . import loops as _loops
    for a in st.ancestors():
        if a.k in ("ForStmt", "WhileStmt"):
            sh = _loops.index_shape(a)
            if sh.ok and sh.var == _r(idx):
                return True
    return False
