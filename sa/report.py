"""Obligations, outcomes, known findings, evidence and report files."""
import hashlib
import json
import os
import time

VERIF = os.path.dirname(os.path.dirname(os.path.abspath(__file__)))

PASS, FAIL, INCONCLUSIVE = "PASS", "FAIL", "INCONCLUSIVE"


class Ob:
    def __init__(self, rule, instance, outcome, where="", why="", key=None, path=None, extra=None):
        def one_line(t):
            return t.replace("\r", "\\r").replace("\n", "\\n") if isinstance(t, str) else t
        self.rule = rule
        self.instance = one_line(instance)
        self.outcome = outcome
        self.where = where
        self.why = one_line(why)
        self.key = key or instance
        self.path = path or []
        self.extra = extra or {}

    def to_json(self):
        d = {"rule": self.rule, "instance": self.instance, "outcome": self.outcome,
             "where": self.where, "why": self.why, "key": self.key}
        if self.path:
            d["path"] = self.path
        if self.extra:
            d["extra"] = self.extra
        return d


class Ctx:
    """Collects the obligations of one property check."""

    def __init__(self, prop, tier, prog):
        self.prop = prop
        self.tier = tier
        self.prog = prog
        self.obs = []
        self.analysed_functions = set()
        self.notes = []
        self.floors = {}
        self.counts = {}
        self.only_rule = None

    def _add(self, ob):
        self.obs.append(ob)
        return ob

    def ok(self, rule, instance, where="", why="", **kw):
        return self._add(Ob(rule, instance, PASS, where, why, **kw))

    def _status_switch_ranges(self):
        """Functions with a `switch` over a status value (type econf_err), inside a loop, that no constant decides: the branch edges of a switch carry no
        case facts in the path engine (edge literals exist for two-way branches only), so a path verdict inside such a function -
        "a failure goes on", "success is reachable with ..." - cannot tell `case ECONF_NOFILE:` from `default:`."""
        if getattr(self, "_ssr", None) is None:
            self._ssr = []
            prog = self.prog
            fns = list(getattr(prog, "functions", {}).values()) + list(getattr(prog, "util_functions", {}).values()) if prog is not None else []
            for f in fns:
                try:
                    dead = getattr(f.cfg, "pruned", set()) if f.body is not None else set()
                    for x in (f.body.walk() if f.body is not None else []):
                        if x.k == "SwitchStmt" and x.id not in dead and any(a9.k in ("ForStmt", "WhileStmt", "DoStmt") for a9 in x.ancestors()):
                            c = x.child("cond")
                            c0 = c.strip() if c is not None else None
                            if c0 is not None and (c0.j.get("ct") == "enum econf_err" or (c0.j.get("from") or {}).get("ct") == "enum econf_err") and c0.const_value() is None:
                                self._ssr.append((f.file_rel, f.line, max((n.j.get("eline") or n.j.get("line") or 0) for n in f.nodes if n is not None), f.name))
                                break
                except Exception:
                    continue
        return self._ssr

    def fail(self, rule, instance, where="", why="", key=None, path=None, **kw):
        try:
            w = str(where).split(":")
            if len(w) >= 2 and w[1].isdigit():
                for (fr, lo, hi, fname) in self._status_switch_ranges():
                    if w[0] == fr and lo <= int(w[1]) <= hi:
                        return self._add(Ob(rule, instance, INCONCLUSIVE, where,
                                            "%s uses a `switch` over a status value, whose case edges the path engine does not follow; not decided: %s" % (fname, why)))
        except Exception:
            pass
        return self._add(Ob(rule, instance, FAIL, where, why, key=key, path=path, **kw))

    def inconclusive(self, rule, instance, where="", why="", **kw):
        return self._add(Ob(rule, instance, INCONCLUSIVE, where, why, **kw))

    def touch(self, *fns):
        for f in fns:
            self.analysed_functions.add(f.name if hasattr(f, "name") else str(f))

    def floor(self, what, found, minimum):
        """Instance-count floor confirmed by hand; fewer instances = the rule went blind."""
        self.counts[what] = found
        self.floors[what] = minimum
        if found < minimum:
            self.inconclusive("floor", what, "", "found %d instances, floor is %d" % (found, minimum))


def load_known():
    p = os.path.join(VERIF, "known_findings.json")
    if not os.path.exists(p):
        return []
    with open(p) as f:
        return json.load(f).get("findings", [])


def known_match(prop, ob, known):
    for k in known:
        if k.get("status") != "known":
            continue
        if k.get("property") == prop and k.get("rule") == ob.rule and k.get("key") == ob.key:
            return k
    return None


def write_report(prop, ob, tier):
    rdir = os.environ.get("VERIF_REPORT_DIR") or os.path.join(VERIF, "reports")
    os.makedirs(rdir, exist_ok=True)
    h = hashlib.sha1(("%s|%s|%s" % (prop, ob.rule, ob.key)).encode()).hexdigest()[:10]
    path = os.path.join(rdir, "%s-%s.json" % (prop, h))
    d = {"property": prop, "tier": tier}
    d.update(ob.to_json())
    with open(path, "w") as f:
        json.dump(d, f, indent=1)
    return path


def write_evidence(prop, meta, ctx, tier, wall, violations, known_hits, extra_cov=None):
    obs = ctx.obs
    n_ob = len([o for o in obs if o.rule != "floor"])
    n_pass = len([o for o in obs if o.outcome == PASS])
    distinct = len(set((o.rule, o.instance) for o in obs if o.outcome in (PASS, FAIL)))
    seed = int(os.environ.get("VERIF_SEED", "0") or 0)
    # samples: a handful of obligations written out, choice rotated by the seed
    samples = []
    if obs:
        step = max(1, len(obs) // 6)
        start = seed % max(1, step)
        for o in obs[start::step][:8]:
            samples.append(o.to_json())
    for o in obs:
        if o.outcome != PASS and o.to_json() not in samples:
            samples.append(o.to_json())
    by_rule = {}
    for o in obs:
        r = by_rule.setdefault(o.rule, {"PASS": 0, "FAIL": 0, "INCONCLUSIVE": 0})
        r[o.outcome] += 1
    cov = {
        "obligations": n_ob,
        "discharged": n_pass,
        "evaluations": max(1, n_ob),
        "distinct_nontrivial": distinct,
        "rule": "one obligation = one rule applied to one instance discovered in the resolved program "
                "(function, call site, loop, field, global, buffer); an obligation is non-trivial when a "
                "construct was found and judged (PASS or FAIL); distinct by (rule, instance)",
        "checker_cmd": "./check %s --tier %s" % (prop, tier),
        "trusted_base": meta.get("trusted_base", []),
        "explanation": meta.get("explanation", ""),
        "samples": samples,
        "by_rule": by_rule,
        "units_analysed": [u for u, _ in ctx.prog.units] if ctx.prog else [],
        "compile_db": ctx.prog.how_db if ctx.prog else None,
        "functions_analysed": sorted(ctx.analysed_functions),
        "instance_counts": ctx.counts,
        "floors": ctx.floors,
        "known_findings_reported": [k.get("key") for k in known_hits],
        "exhaustive": True,
        "notes": ctx.notes,
    }
    if extra_cov:
        cov.update(extra_cov)
    ev = {
        "property_id": prop,
        "tier": tier,
        "seed": seed,
        "level": meta.get("level", "other"),
        "coverage": cov,
        "assumptions": meta.get("assumptions", []),
        "wall_s": round(wall, 3),
        "violations": violations,
    }
    os.makedirs(os.path.join(VERIF, "evidence"), exist_ok=True)
    with open(os.path.join(VERIF, "evidence", "%s.json" % prop), "w") as f:
        json.dump(ev, f, indent=1, sort_keys=True)
        f.write("\n")
    return ev
