"""Typed statement/expression trees as exported by bin/econf-facts, with the helpers the
rules share: stripping of parentheses/implicit casts, canonical rendering of expressions,
tree walks, call collection."""
import os

TRANSPARENT = ("ParenExpr", "ImplicitCastExpr", "ConstantExpr", "GenericSelectionExpr")
CASTS = ("CStyleCastExpr",)


class Node:
    __slots__ = ("j", "fn", "id", "k", "parent", "_children")

    def __init__(self, j, fn):
        self.j = j
        self.fn = fn
        self.id = j["id"]
        self.k = j["k"]
        self.parent = None
        self._children = None

    def __getattr__(self, name):
        # convenience: n.op, n.name, n.callee, n.member ... (None when absent)
        if name.startswith("__"):
            raise AttributeError(name)
        return self.j.get(name)

    @property
    def children(self):
        if self._children is None:
            self._children = [self.fn.nodes[i] for i in self.j.get("ch", []) if i >= 0]
        return self._children

    def child(self, key):
        i = self.j.get(key, -1)
        if i is None or i < 0:
            return None
        return self.fn.nodes[i]

    @property
    def line(self):
        return self.j.get("line", 0)

    @property
    def where(self):
        return "%s:%s:%s" % (self.fn.file_rel, self.j.get("line", 0), self.j.get("col", 0))

    @property
    def type(self):
        return self.j.get("t")

    @property
    def ctype(self):
        return self.j.get("ct")

    def is_expr(self):
        return "t" in self.j

    def walk(self):
        """Pre-order walk of the subtree."""
        stack = [self]
        while stack:
            n = stack.pop()
            yield n
            stack.extend(reversed(n.children))

    def strip(self, casts=True):
        """Skip parentheses, implicit casts, _Generic wrappers and (optionally) C casts; `*&x` and `&*x` are x."""
        n = self
        while True:
            if n.k in TRANSPARENT and n.children:
                n = n.children[0]
            elif casts and n.k in CASTS and n.children:
                n = n.children[0]
            elif n.k == "UnaryOperator" and n.j.get("op") in ("*", "&") and n.children:
                inner = n.children[0]
                while (inner.k in TRANSPARENT or (casts and inner.k in CASTS)) and inner.children:
                    inner = inner.children[0]
                if inner.k == "UnaryOperator" and inner.j.get("op") == ("&" if n.j["op"] == "*" else "*") and inner.children:
                    n = inner.children[0]
                else:
                    return n
            else:
                return n

    def resolve(self):
        """the lvalue this expression denotes after expanding local aliases: `*p` with `p = &X` is X,
        a local pointer alias `q = E` is E; otherwise the stripped node itself"""
        n = self.strip()
        for _ in range(6):
            if n.k == "UnaryOperator" and n.j.get("op") == "*" and n.children:
                t = _resolve_alias(n.children[0]).strip()
                if t.k == "UnaryOperator" and t.j.get("op") == "&" and t.children:
                    n = t.children[0].strip()
                    continue
            if n.k == "DeclRefExpr":
                t = _resolve_alias(n)
                if t is not n:
                    n = t.strip()
                    continue
            break
        return n

    def up(self):
        """Nearest ancestor that is not a transparent wrapper."""
        p = self.parent
        while p is not None and (p.k in TRANSPARENT or p.k in CASTS):
            p = p.parent
        return p

    def ancestors(self):
        p = self.parent
        while p is not None:
            yield p
            p = p.parent

    def within(self, other):
        n = self
        while n is not None:
            if n is other:
                return True
            n = n.parent
        return False

    # ---- classification helpers --------------------------------------------------------
    def is_null_const(self):
        n = self
        while n.k in TRANSPARENT or n.k in CASTS:
            if n.j.get("ck") == "NullToPointer":
                return True
            if not n.children:
                break
            n = n.children[0]
        if n.j.get("ck") == "NullToPointer":
            return True
        if n.k == "IntegerLiteral" and n.j.get("val") == 0 and self.j.get("ct", "").endswith("*"):
            return True
        return False

    def const_value(self):
        """Integer constant value as clang evaluated it (None when not constant)."""
        n = self
        while True:
            if "cv" in n.j:
                return n.j["cv"]
            if "val" in n.j and n.k in ("IntegerLiteral", "CharacterLiteral"):
                return n.j["val"]
            if n.k == "DeclRefExpr" and n.j.get("dk") == "enum":
                return n.j.get("val")
            if (n.k in TRANSPARENT or n.k in CASTS) and n.children:
                n = n.children[0]
                continue
            return None

    def string_value(self):
        n = self.strip()
        if n.k == "StringLiteral":
            return n.j.get("str")
        return None

    def callee_name(self):
        n = self.strip()
        if n.k == "CallExpr":
            return n.j.get("callee")
        return None

    def call_args(self):
        """Argument nodes of a CallExpr (children[0] is the callee expression)."""
        n = self.strip()
        return n.children[1:]

    def __repr__(self):
        return "<%s#%d %s @%s>" % (self.k, self.id, render(self)[:60], self.j.get("line"))


_RENDER_STACK = []


def _resolve_alias(node):
    """the expression a local alias stands for (see Function.alias_map), else the node itself"""
    s = node.strip()
    if s.k == "DeclRefExpr" and s.j.get("dk") == "local" and s.fn is not None and not getattr(s.fn, "_no_alias", False):
        am = s.fn.alias_map
        nm = s.j.get("name")
        if nm in am and am[nm] is not None and nm not in _RENDER_STACK:
            return am[nm]
    return node


def render(n, casts=False):
    """Canonical C-like text of an expression: parentheses and implicit casts dropped,
    (*p).f written p->f, NULL written NULL.  Two expressions with equal rendering are
    syntactically the same access/computation."""
    if n is None:
        return "<none>"
    k = n.k
    j = n.j
    if j.get("ck") == "NullToPointer":
        return "NULL"
    if k in TRANSPARENT:
        if n.is_null_const():
            return "NULL"
        return render(n.children[0], casts) if n.children else "?"
    if k == "CStyleCastExpr":
        if n.is_null_const():
            return "NULL"
        inner = render(n.children[0], casts)
        return "(%s)%s" % (j.get("t"), inner) if casts else inner
    if k == "DeclRefExpr":
        nm = j.get("name", "?")
        if j.get("dk") == "local" and n.fn is not None and not getattr(n.fn, "_no_alias", False):
            am = n.fn.alias_map
            if nm in am and am[nm] is not None and nm not in _RENDER_STACK:
                _RENDER_STACK.append(nm)
                try:
                    return _paren(am[nm], casts)
                finally:
                    _RENDER_STACK.pop()
        return nm
    if k == "IntegerLiteral":
        return str(j.get("val"))
    if k == "CharacterLiteral":
        v = j.get("val", 0)
        if 32 <= v < 127 and chr(v) not in "'\\":
            return "'%s'" % chr(v)
        return "'\\x%02x'" % v
    if k == "FloatingLiteral":
        return j.get("fval", "?")
    if k == "StringLiteral":
        s = j.get("str", "")
        return '"%s"' % s.replace("\\", "\\\\").replace("\n", "\\n").replace("\t", "\\t").replace('"', '\\"')
    if k == "MemberExpr":
        base = _resolve_alias(n.children[0])
        b = base.strip()
        if not j.get("arrow") and b.k == "UnaryOperator" and b.j.get("op") == "*":
            return "%s->%s" % (_paren(b.children[0], casts), j.get("member"))
        if j.get("arrow") and b.k == "UnaryOperator" and b.j.get("op") == "&":
            return "%s.%s" % (_paren(b.children[0], casts), j.get("member"))
        if j.get("arrow") and b.k == "UnaryOperator" and b.j.get("op") == "*":
            return "(%s)->%s" % (render(b, casts), j.get("member"))
        return "%s%s%s" % (_paren(base, casts), "->" if j.get("arrow") else ".", j.get("member"))
    if k == "ArraySubscriptExpr":
        b0 = _resolve_alias(n.children[0])
        bs = b0.strip()
        if bs.k == "UnaryOperator" and bs.j.get("op") in ("*", "&"):
            return "(%s)[%s]" % (render(bs, casts), render(n.children[1], casts))
        return "%s[%s]" % (_paren(b0, casts), render(n.children[1], casts))
    if k == "UnaryOperator":
        op = j.get("op")
        if op == "*" and n.children:
            tgt = _resolve_alias(n.children[0]).strip()
            if tgt.k == "UnaryOperator" and tgt.j.get("op") == "&" and tgt.children:
                return render(tgt.children[0], casts)
        if op in ("*", "&") and n.children:
            inner = n.children[0].strip()
            if inner is not n.children[0].strip(casts=True) or True:
                raw = n.children[0]
                while raw.k in TRANSPARENT and raw.children:
                    raw = raw.children[0]
                if raw.k == "UnaryOperator" and raw.j.get("op") == ("&" if op == "*" else "*") and raw.children:
                    return render(raw.children[0], casts)
        if j.get("postfix"):
            return "%s%s" % (_paren(n.children[0], casts), op)
        return "%s%s" % (op, _paren(n.children[0], casts))
    if k in ("BinaryOperator", "CompoundAssignOperator"):
        return "%s %s %s" % (_paren(n.children[0], casts), j.get("op"), _paren(n.children[1], casts))
    if k == "ConditionalOperator":
        return "%s ? %s : %s" % (_paren(n.child("cond"), casts), _paren(n.child("then"), casts),
                                 _paren(n.child("else"), casts))
    if k == "CallExpr":
        callee = j.get("callee")
        if callee is None:
            callee = "(" + render(n.children[0], casts) + ")"
        return "%s(%s)" % (callee, ", ".join(render(a, casts) for a in n.children[1:]))
    if k == "UnaryExprOrTypeTraitExpr":
        if "argtype" in j:
            return "sizeof(%s)" % j["argtype"].get("t")
        return "sizeof(%s)" % (render(n.children[0], casts) if n.children else "?")
    if k == "InitListExpr":
        return "{%s}" % ", ".join(render(c, casts) for c in n.children)
    if k == "ReturnStmt":
        return "return %s" % (render(n.children[0], casts) if n.children else "")
    if k == "DeclStmt":
        ds = j.get("decls", [])
        return "; ".join("%s %s%s" % (d.get("t"), d.get("name"),
                                      (" = " + render(n.fn.nodes[d["init"]], casts)) if d.get("init", -1) >= 0 else "")
                         for d in ds)
    if k == "StmtExpr":
        return "({...})"
    if k == "CompoundLiteralExpr":
        return "(%s){...}" % j.get("t")
    if k == "PredefinedExpr":
        return "__func__"
    if k == "VAArgExpr":
        return "va_arg(...)"
    return "<%s>" % k


def _paren(n, casts):
    s = n.strip(casts=not casts)
    if s.k in ("BinaryOperator", "ConditionalOperator", "CompoundAssignOperator"):
        return "(" + render(n, casts) + ")"
    if s.k == "UnaryOperator" and n.parent is not None and n.parent.k in ("MemberExpr", "ArraySubscriptExpr"):
        return "(" + render(n, casts) + ")"
    return render(n, casts)


class Function:
    def __init__(self, j, unit, prog):
        self.j = j
        self.unit = unit              # e.g. lib/keyfile.c
        self.prog = prog
        self.name = j["name"]
        self.file = j["file"]
        self.line = j.get("line", 0)
        self.is_static = j.get("static", False)
        self.from_macro = j.get("from_macro")
        self.params = j["params"]
        self.nodes = [Node(nj, self) for nj in j["nodes"]]
        for n in self.nodes:
            for c in n.children:
                if c.parent is None:
                    c.parent = n
        self.body = self.nodes[j["body"]] if j.get("body", -1) >= 0 else None
        self._cfg = None
        self.inlined = []
        self.is_inlined_helper = False

    @property
    def file_rel(self):
        import os
        try:
            return os.path.relpath(self.file, self.prog.repo)
        except ValueError:
            return self.file

    @property
    def where(self):
        return "%s:%d" % (self.file_rel, self.line)

    @property
    def cfg(self):
        if self._cfg is None:
            from .cfg import CFG
            self._cfg = CFG(self)
        return self._cfg

    @property
    def alias_map(self):
        """{local name: expression node} for locals that are mere names for another access path:
        exactly one definition (in the declaration or a single assignment), the right-hand side free of calls and
        side effects, a pointer/record-pointer type, the variable never re-assigned or incremented and its address never
        taken, and nothing the right-hand side mentions is stored to afterwards.  render() expands such names, so that
        `struct file_entry *last = &ef->file_entry[ef->length-1]; last->value = x;` reads `ef->file_entry[ef->length - 1].value = x`."""
        if getattr(self, "_alias_map", None) is not None:
            return self._alias_map
        self._alias_map = {}
        self._no_alias = True
        try:
            defs = {}
            bad = set()
            for n in self.nodes:
                if n.k == "DeclStmt":
                    for d in n.j.get("decls", []):
                        if d.get("init", -1) >= 0 and not n.j.get("synthetic_of") is None and False:
                            pass
                    for d in n.j.get("decls", []):
                        if n.j.get("synthetic_of") is not None:
                            continue
                        if d.get("init", -1) >= 0:
                            defs.setdefault(d["name"], []).append((self.nodes[d["init"]], n, d))
                        else:
                            defs.setdefault(d["name"], [])
                elif n.k == "BinaryOperator" and n.j.get("op") == "=":
                    l = n.children[0].strip()
                    if l.k == "DeclRefExpr" and l.j.get("dk") == "local":
                        defs.setdefault(l.j["name"], []).append((n.children[1], n, None))
                elif n.k == "CompoundAssignOperator" or (n.k == "UnaryOperator" and n.j.get("op") in ("++", "--", "&")):
                    l = n.children[0].strip()
                    if l.k == "DeclRefExpr" and l.j.get("dk") == "local":
                        bad.add(l.j["name"])
            stores = []
            for n in self.nodes:
                if n.k == "BinaryOperator" and n.j.get("op") == "=":
                    stores.append((render(n.children[0]), n))
                elif n.k == "CompoundAssignOperator" or (n.k == "UnaryOperator" and n.j.get("op") in ("++", "--")):
                    stores.append((render(n.children[0]), n))
            for name, ds in defs.items():
                if name in bad or len(ds) != 1:
                    continue
                rhs, stmt, decl = ds[0]
                r = rhs.strip()
                ct = rhs.j.get("ct", "") or ""
                if not ct.endswith("*"):
                    continue
                if ct in ("char *", "const char *", "void *", "const void *"):
                    # string cursors are values, not names for an object - except a local that is set once, in its declaration, to a
                    # string FIELD and never moved: `const char *value = kf->file_entry[i].value;` is a short name for the field
                    if not (ct in ("char *", "const char *") and decl is not None and r.k == "MemberExpr" and os.environ.get("VERIF_NO_FIELD_ALIAS") is None):
                        continue
                pure = True
                for x in r.walk():
                    if x.k in ("CallExpr", "CompoundAssignOperator", "StmtExpr", "ConditionalOperator") or \
                            (x.k == "UnaryOperator" and x.j.get("op") in ("++", "--")) or (x.k == "BinaryOperator" and x.j.get("op") == "="):
                        pure = False
                if not pure or r.k not in ("UnaryOperator", "DeclRefExpr", "MemberExpr", "ArraySubscriptExpr"):
                    continue
                if r.k == "UnaryOperator" and r.j.get("op") not in ("&", "*"):
                    continue
                if r.is_null_const():
                    continue
                # nothing mentioned by the right-hand side is stored to after the definition
                mentioned = set()
                for x in r.walk():
                    if x.k in ("DeclRefExpr", "MemberExpr", "ArraySubscriptExpr") and x.is_expr():
                        mentioned.add(render(x))
                try:
                    cfg = self.cfg
                    db = cfg.block_of(stmt)
                    after = cfg.reachable(db) if db is not None else set()
                except Exception:
                    after = set()
                    db = None
                clobbered = False
                uses = [u for u in self.nodes if u.k == "DeclRefExpr" and u.j.get("name") == name and u.j.get("dk") == "local"]
                for text, sn in stores:
                    if text in mentioned and sn is not stmt:
                        sb = None
                        try:
                            sb = self.cfg.block_of(sn)
                        except Exception:
                            pass
                        if sb is None or sb in after:
                            if sb == db:
                                pd, ps = self.cfg.index_of(stmt), self.cfg.index_of(sn)
                                if pd and ps and ps[1] < pd[1] and db not in [x for (bb, ii, x) in self.cfg.edges() if bb in after and x == db]:
                                    continue
                            # a store that can only reach a use of the alias by executing the definition again
                            # (the loop increment of an index the alias was computed from) does not hurt
                            hurts = True
                            try:
                                if sb is not None and db is not None and sb != db:
                                    reach2 = self.cfg.reachable(sb, avoid_blocks=[db])
                                    hurts = any(self.cfg.block_of(u) in reach2 for u in uses if self.cfg.block_of(u) is not None)
                            except Exception:
                                hurts = True
                            if hurts:
                                clobbered = True
                if clobbered:
                    continue
                self._alias_map[name] = rhs
            # a local that holds a freshly created object and is published through an out-parameter right away
            #   T *obj = calloc(..); *out = obj;     =>  obj is another name for *out
            for name, ds in defs.items():
                # NULL initialisations / resets do not count: the local is "NULL or the one fresh object"
                if name in self._alias_map or name in bad or len([d for d in ds if not d[0].is_null_const()]) != 1:
                    continue
                pubs = [n for n in self.nodes if n.k == "BinaryOperator" and n.j.get("op") == "=" and n.children[1].strip().k == "DeclRefExpr"
                        and n.children[1].strip().j.get("name") == name and n.children[1].strip().j.get("dk") == "local"]
                if len(pubs) != 1:
                    continue
                if not (pubs[0].children[1].strip().j.get("ct", "") or "").endswith("*") or pubs[0].children[1].strip().j.get("ct") in ("char *", "const char *"):
                    continue
                if pubs[0].children[1].strip() is not pubs[0].children[1] and any(x.k == "CStyleCastExpr" for x in pubs[0].children[1].walk()):
                    continue
                l = pubs[0].children[0].strip()
                if l.k == "UnaryOperator" and l.j.get("op") == "*" and l.children[0].strip().k == "DeclRefExpr" and l.children[0].strip().j.get("dk") == "param":
                    others = [text for text, sn in stores if text == render(l) and sn is not pubs[0]]
                    if not others or all(sn.children[1].is_null_const() for text, sn in stores if text == render(l) and sn is not pubs[0] and sn.k == "BinaryOperator"):
                        self._alias_map[name] = l
        finally:
            self._no_alias = False
        return self._alias_map

    def param(self, name):
        for p in self.params:
            if p["name"] == name:
                return p
        return None

    def param_names(self):
        return [p["name"] for p in self.params]

    def walk(self):
        if self.body is None:
            return iter(())
        dead = self._dead_ids()
        if not dead:
            return self.body.walk()
        return self._walk_live(dead)

    def _dead_ids(self):
        """statements under the cases a `switch (<constant>)` never enters (the tag of an inlined generic helper): not part of this function"""
        d = getattr(self, "_dead", None)
        if d is None:
            self._dead = d = frozenset()
            if any(n.k == "SwitchStmt" for n in self.nodes) and self.j.get("cfg") is not None:
                self._dead = d = frozenset(self.cfg.pruned)
        return d

    def _walk_live(self, dead):
        stack = [self.body]
        while stack:
            n = stack.pop()
            if n.id in dead:
                continue
            yield n
            stack.extend(reversed(n.children))

    def calls(self, callee=None):
        """All CallExpr nodes (optionally to one callee / a set of callees)."""
        out = []
        for n in self.walk():
            if n.k == "CallExpr":
                c = n.j.get("callee")
                if callee is None or c == callee or (isinstance(callee, (set, frozenset, tuple, list)) and c in callee):
                    out.append(n)
        return out

    def returns(self, inlined=False):
        """ReturnStmt nodes of this function; `return` statements of virtually inlined helpers are
        not exits of this function and are only listed on request"""
        return [n for n in self.walk() if n.k == "ReturnStmt" and (inlined or not n.j.get("inlined_return"))]

    def local_decls(self):
        """name -> decl dict for every local variable (params excluded)."""
        out = {}
        for n in self.walk():
            if n.k == "DeclStmt":
                for d in n.j.get("decls", []):
                    out.setdefault(d["name"], d)
        return out

    def assignments(self):
        """(lhs node, rhs node, stmt node) for every '=' and every initialised declaration
        (lhs None + decl dict for declarations)."""
        out = []
        for n in self.walk():
            if n.k == "BinaryOperator" and n.j.get("op") == "=":
                out.append((n.children[0], n.children[1], n))
            elif n.k == "DeclStmt" and not n.j.get("synthetic_of"):
                for d in n.j.get("decls", []):
                    if d.get("init", -1) >= 0:
                        out.append((d, self.nodes[d["init"]], n))
        return out

    def __repr__(self):
        return "<fn %s %s>" % (self.name, self.where)


class GlobalVar:
    def __init__(self, j, unit):
        self.j = j
        self.unit = unit
        self.name = j["name"]
        self.type = j.get("t")
        self.ctype = j.get("ct")
        self.is_static = j.get("static", False)
        self.is_const = j.get("const", False)
        self.is_def = j.get("is_def", False)
        self.file = j.get("file")
        self.line = j.get("line", 0)
        self.arr = j.get("arr")
        self.nodes_j = j.get("nodes", [])
        self.init = j.get("init", -1)

    def init_strings(self):
        """String literals of the initialiser, in order (for tables like messages[])."""
        return [n.get("str") for n in self.nodes_j if n and n.get("k") == "StringLiteral"]

    def init_rows(self):
        """A table of {code, "text"} rows: [(code value or None, text or None)] per row, None when the initialiser is not of that form."""
        if self.init is None or self.init < 0:
            return None
        top = self.nodes_j[self.init]
        if top.get("k") != "InitListExpr":
            return None
        def sub(i):
            out, todo = [], [i]
            while todo:
                n = self.nodes_j[todo.pop()]
                if n:
                    out.append(n)
                    todo.extend(n.get("ch", []))
            return out
        rows = []
        for ci in top.get("ch", []):
            r = self.nodes_j[ci]
            if not r or r.get("k") != "InitListExpr" or len(r.get("ch", [])) != 2:
                return None
            a, b = r["ch"]
            code = None
            for n in sub(a):
                if "cv" in n:
                    code = n["cv"]; break
                if n.get("k") == "DeclRefExpr" and n.get("dk") == "enum":
                    code = n.get("val"); break
                if n.get("k") == "IntegerLiteral" and "val" in n:
                    code = n["val"]; break
            text = next((n.get("str") for n in sub(b) if n.get("k") == "StringLiteral"), None)
            rows.append((code, text))
        return rows

    def init_list_len(self):
        if self.init is None or self.init < 0:
            return None
        n = self.nodes_j[self.init]
        if n.get("k") == "InitListExpr":
            return len(n.get("ch", []))
        return None
