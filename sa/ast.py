"""Typed statement/expression trees as exported by bin/econf-facts, with the helpers the
rules share: stripping of parentheses/implicit casts, canonical rendering of expressions,
tree walks, call collection."""

TRANSPARENT = ("ParenExpr", "ImplicitCastExpr", "ConstantExpr", "GenericSelectionExpr")
CASTS = ("CStyleCastExpr",)


class Node:
    __slots__ = ("j", "fn", "id", "k", "parent", "_children")

    def __init__(self, j, fn):
        self.j = j
        self.fn = fn
        self.id = j["id"]
        self.k = j["k"]
        self.parent = None
        self._children = None

    def __getattr__(self, name):
        # convenience: n.op, n.name, n.callee, n.member ... (None when absent)
        if name.startswith("__"):
            raise AttributeError(name)
        return self.j.get(name)

    @property
    def children(self):
        if self._children is None:
            self._children = [self.fn.nodes[i] for i in self.j.get("ch", []) if i >= 0]
        return self._children

    def child(self, key):
        i = self.j.get(key, -1)
        if i is None or i < 0:
            return None
        return self.fn.nodes[i]

    @property
    def line(self):
        return self.j.get("line", 0)

    @property
    def where(self):
        return "%s:%s:%s" % (self.fn.file_rel, self.j.get("line", 0), self.j.get("col", 0))

    @property
    def type(self):
        return self.j.get("t")

    @property
    def ctype(self):
        return self.j.get("ct")

    def is_expr(self):
        return "t" in self.j

    def walk(self):
        """Pre-order walk of the subtree."""
        stack = [self]
        while stack:
            n = stack.pop()
            yield n
            stack.extend(reversed(n.children))

    def strip(self, casts=True):
        """Skip parentheses, implicit casts, _Generic wrappers and (optionally) C casts."""
        n = self
        while True:
            if n.k in TRANSPARENT and n.children:
                n = n.children[0]
            elif casts and n.k in CASTS and n.children:
                n = n.children[0]
            else:
                return n

    def up(self):
        """Nearest ancestor that is not a transparent wrapper."""
        p = self.parent
        while p is not None and (p.k in TRANSPARENT or p.k in CASTS):
            p = p.parent
        return p

    def ancestors(self):
        p = self.parent
        while p is not None:
            yield p
            p = p.parent

    def within(self, other):
        n = self
        while n is not None:
            if n is other:
                return True
            n = n.parent
        return False

    # ---- classification helpers --------------------------------------------------------
    def is_null_const(self):
        n = self
        while n.k in TRANSPARENT or n.k in CASTS:
            if n.j.get("ck") == "NullToPointer":
                return True
            if not n.children:
                break
            n = n.children[0]
        if n.j.get("ck") == "NullToPointer":
            return True
        if n.k == "IntegerLiteral" and n.j.get("val") == 0 and self.j.get("ct", "").endswith("*"):
            return True
        return False

    def const_value(self):
        """Integer constant value as clang evaluated it (None when not constant)."""
        n = self
        while True:
            if "cv" in n.j:
                return n.j["cv"]
            if "val" in n.j and n.k in ("IntegerLiteral", "CharacterLiteral"):
                return n.j["val"]
            if n.k == "DeclRefExpr" and n.j.get("dk") == "enum":
                return n.j.get("val")
            if (n.k in TRANSPARENT or n.k in CASTS) and n.children:
                n = n.children[0]
                continue
            return None

    def string_value(self):
        n = self.strip()
        if n.k == "StringLiteral":
            return n.j.get("str")
        return None

    def callee_name(self):
        n = self.strip()
        if n.k == "CallExpr":
            return n.j.get("callee")
        return None

    def call_args(self):
        """Argument nodes of a CallExpr (children[0] is the callee expression)."""
        n = self.strip()
        return n.children[1:]

    def __repr__(self):
        return "<%s#%d %s @%s>" % (self.k, self.id, render(self)[:60], self.j.get("line"))


def render(n, casts=False):
    """Canonical C-like text of an expression: parentheses and implicit casts dropped,
    (*p).f written p->f, NULL written NULL.  Two expressions with equal rendering are
    syntactically the same access/computation."""
    if n is None:
        return "<none>"
    k = n.k
    j = n.j
    if j.get("ck") == "NullToPointer":
        return "NULL"
    if k in TRANSPARENT:
        if n.is_null_const():
            return "NULL"
        return render(n.children[0], casts) if n.children else "?"
    if k == "CStyleCastExpr":
        if n.is_null_const():
            return "NULL"
        inner = render(n.children[0], casts)
        return "(%s)%s" % (j.get("t"), inner) if casts else inner
    if k == "DeclRefExpr":
        return j.get("name", "?")
    if k == "IntegerLiteral":
        return str(j.get("val"))
    if k == "CharacterLiteral":
        v = j.get("val", 0)
        if 32 <= v < 127 and chr(v) not in "'\\":
            return "'%s'" % chr(v)
        return "'\\x%02x'" % v
    if k == "FloatingLiteral":
        return j.get("fval", "?")
    if k == "StringLiteral":
        s = j.get("str", "")
        return '"%s"' % s.replace("\\", "\\\\").replace("\n", "\\n").replace("\t", "\\t").replace('"', '\\"')
    if k == "MemberExpr":
        base = n.children[0]
        b = base.strip()
        if not j.get("arrow") and b.k == "UnaryOperator" and b.j.get("op") == "*":
            return "%s->%s" % (_paren(b.children[0], casts), j.get("member"))
        return "%s%s%s" % (_paren(base, casts), "->" if j.get("arrow") else ".", j.get("member"))
    if k == "ArraySubscriptExpr":
        return "%s[%s]" % (_paren(n.children[0], casts), render(n.children[1], casts))
    if k == "UnaryOperator":
        op = j.get("op")
        if j.get("postfix"):
            return "%s%s" % (_paren(n.children[0], casts), op)
        return "%s%s" % (op, _paren(n.children[0], casts))
    if k in ("BinaryOperator", "CompoundAssignOperator"):
        return "%s %s %s" % (_paren(n.children[0], casts), j.get("op"), _paren(n.children[1], casts))
    if k == "ConditionalOperator":
        return "%s ? %s : %s" % (_paren(n.child("cond"), casts), _paren(n.child("then"), casts),
                                 _paren(n.child("else"), casts))
    if k == "CallExpr":
        callee = j.get("callee")
        if callee is None:
            callee = "(" + render(n.children[0], casts) + ")"
        return "%s(%s)" % (callee, ", ".join(render(a, casts) for a in n.children[1:]))
    if k == "UnaryExprOrTypeTraitExpr":
        if "argtype" in j:
            return "sizeof(%s)" % j["argtype"].get("t")
        return "sizeof(%s)" % (render(n.children[0], casts) if n.children else "?")
    if k == "InitListExpr":
        return "{%s}" % ", ".join(render(c, casts) for c in n.children)
    if k == "ReturnStmt":
        return "return %s" % (render(n.children[0], casts) if n.children else "")
    if k == "DeclStmt":
        ds = j.get("decls", [])
        return "; ".join("%s %s%s" % (d.get("t"), d.get("name"),
                                      (" = " + render(n.fn.nodes[d["init"]], casts)) if d.get("init", -1) >= 0 else "")
                         for d in ds)
    if k == "StmtExpr":
        return "({...})"
    if k == "CompoundLiteralExpr":
        return "(%s){...}" % j.get("t")
    if k == "PredefinedExpr":
        return "__func__"
    if k == "VAArgExpr":
        return "va_arg(...)"
    return "<%s>" % k


def _paren(n, casts):
    s = n.strip(casts=not casts)
    if s.k in ("BinaryOperator", "ConditionalOperator", "CompoundAssignOperator"):
        return "(" + render(n, casts) + ")"
    if s.k == "UnaryOperator" and n.parent is not None and n.parent.k in ("MemberExpr", "ArraySubscriptExpr"):
        return "(" + render(n, casts) + ")"
    return render(n, casts)


class Function:
    def __init__(self, j, unit, prog):
        self.j = j
        self.unit = unit              # e.g. lib/keyfile.c
        self.prog = prog
        self.name = j["name"]
        self.file = j["file"]
        self.line = j.get("line", 0)
        self.is_static = j.get("static", False)
        self.from_macro = j.get("from_macro")
        self.params = j["params"]
        self.nodes = [Node(nj, self) for nj in j["nodes"]]
        for n in self.nodes:
            for c in n.children:
                if c.parent is None:
                    c.parent = n
        self.body = self.nodes[j["body"]] if j.get("body", -1) >= 0 else None
        self._cfg = None

    @property
    def file_rel(self):
        import os
        try:
            return os.path.relpath(self.file, self.prog.repo)
        except ValueError:
            return self.file

    @property
    def where(self):
        return "%s:%d" % (self.file_rel, self.line)

    @property
    def cfg(self):
        if self._cfg is None:
            from .cfg import CFG
            self._cfg = CFG(self)
        return self._cfg

    def param(self, name):
        for p in self.params:
            if p["name"] == name:
                return p
        return None

    def param_names(self):
        return [p["name"] for p in self.params]

    def walk(self):
        if self.body is None:
            return iter(())
        return self.body.walk()

    def calls(self, callee=None):
        """All CallExpr nodes (optionally to one callee / a set of callees)."""
        out = []
        for n in self.walk():
            if n.k == "CallExpr":
                c = n.j.get("callee")
                if callee is None or c == callee or (isinstance(callee, (set, frozenset, tuple, list)) and c in callee):
                    out.append(n)
        return out

    def returns(self):
        return [n for n in self.walk() if n.k == "ReturnStmt"]

    def local_decls(self):
        """name -> decl dict for every local variable (params excluded)."""
        out = {}
        for n in self.walk():
            if n.k == "DeclStmt":
                for d in n.j.get("decls", []):
                    out.setdefault(d["name"], d)
        return out

    def assignments(self):
        """(lhs node, rhs node, stmt node) for every '=' and every initialised declaration
        (lhs None + decl dict for declarations)."""
        out = []
        for n in self.walk():
            if n.k == "BinaryOperator" and n.j.get("op") == "=":
                out.append((n.children[0], n.children[1], n))
            elif n.k == "DeclStmt" and not n.j.get("synthetic_of"):
                for d in n.j.get("decls", []):
                    if d.get("init", -1) >= 0:
                        out.append((d, self.nodes[d["init"]], n))
        return out

    def __repr__(self):
        return "<fn %s %s>" % (self.name, self.where)


class GlobalVar:
    def __init__(self, j, unit):
        self.j = j
        self.unit = unit
        self.name = j["name"]
        self.type = j.get("t")
        self.ctype = j.get("ct")
        self.is_static = j.get("static", False)
        self.is_const = j.get("const", False)
        self.is_def = j.get("is_def", False)
        self.file = j.get("file")
        self.line = j.get("line", 0)
        self.arr = j.get("arr")
        self.nodes_j = j.get("nodes", [])
        self.init = j.get("init", -1)

    def init_strings(self):
        """String literals of the initialiser, in order (for tables like messages[])."""
        return [n.get("str") for n in self.nodes_j if n and n.get("k") == "StringLiteral"]

    def init_list_len(self):
        if self.init is None or self.init < 0:
            return None
        n = self.nodes_j[self.init]
        if n.get("k") == "InitListExpr":
            return len(n.get("ch", []))
        return None
