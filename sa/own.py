"""E-own: ownership typestate, object based, path-partitioned.

Abstract state = (env, heap, facts)
  env   : location -> object id | NULL | UNK      locations are locals, `*p` for pointer-to-pointer
                                                  parameters and selected field paths (`(*p)->f`)
  heap  : object id -> 'O' owned by this frame (must be released / moved / handed out)
                       'F' freed        'M' moved (stored into an object, array, out-pointer; returned)
                       'C' caller's object (not ours; may be released only where the contract says so)
  facts : error variable -> 'Z' (== 0) | 'NZ' (!= 0) | name of the enumerator it equals

States are kept as a set per block (trace partitioning, capped); branch literals on tracked
pointers and on the error variables refine / prune them.  Fresh allocations are non-NULL
(no allocation failure, DESIGN 0.4): the NULL edge of a test on a fresh object is pruned,
which removes exactly the OOM paths.

Findings: leak at an exit, leak by overwrite, double free, use after free, free after move,
dangling out-pointer (out location refers to a freed object at an exit)."""
from .ast import render
from .facts import Inconclusive
from . import query

NULL, UNK = "NULL", "UNK"

ALLOCATORS = {"malloc": False, "calloc": False, "strdup": False, "strndup": False, "fopen": True, "fdopen": True,
              "opendir": True, "realloc": False}      # value: may legitimately return NULL
RELEASERS = {"free": 0, "fclose": 0, "closedir": 0, "econf_freeFile": 0, "econf_freeArray": 0, "econf_freeExtValue": 0}
RELEASE_RETURNS_NULL = ("econf_freeFile", "econf_freeArray")
MAX_STATES = 3000


class Finding:
    def __init__(self, kind, fn, node, loc, detail, path=None):
        self.kind, self.fn, self.node, self.loc, self.detail = kind, fn, node, loc, detail
        self.path = path or []

    @property
    def key(self):
        return "%s:%s:%s" % (self.kind, self.fn.name, self.loc)


_RET_PARAM_LIBC = {"strcpy": 0, "strncpy": 0, "strcat": 0, "strncat": 0, "memcpy": 0, "memmove": 0, "memset": 0}


def _returns_param(prog, fname, depth=0):
    """index of the parameter a function always returns (possibly advanced inside the same string), or None"""
    if fname in _RET_PARAM_LIBC:
        return _RET_PARAM_LIBC[fname]
    cache = prog.__dict__.setdefault("_returns_param_cache", {})
    if fname in cache:
        return cache[fname]
    cache[fname] = None
    g = prog.functions.get(fname) or prog.util_functions.get(fname)
    if g is None or depth > 3 or not g.j.get("cfg"):
        return None
    g = getattr(g, "original", g)
    names = [q["name"] for q in g.params]
    res = set()
    for r in g.returns():
        if not r.children:
            return None
        e = r.children[0].strip()
        if e.k == "DeclRefExpr" and e.j.get("dk") == "param" and e.j.get("name") in names:
            res.add(names.index(e.j["name"]))
        elif e.k == "CallExpr":
            k2 = _returns_param(prog, e.j.get("callee"), depth + 1)
            if k2 is None or k2 >= len(e.call_args()):
                return None
            a = e.call_args()[k2].strip()
            # the argument may itself be such a call
            hops = 0
            while a.k == "CallExpr" and hops < 3:
                k3 = _returns_param(prog, a.j.get("callee"), depth + 1)
                if k3 is None or k3 >= len(a.call_args()):
                    return None
                a = a.call_args()[k3].strip()
                hops += 1
            if a.k == "DeclRefExpr" and a.j.get("dk") == "param" and a.j.get("name") in names:
                res.add(names.index(a.j["name"]))
            else:
                return None
        else:
            return None
    if len(res) == 1:
        cache[fname] = list(res)[0]
    return cache[fname]


class State:
    __slots__ = ("env", "heap", "facts", "trail", "site", "maybe_null", "held", "dang")

    def __init__(self):
        self.env = {}
        self.heap = {}
        self.facts = {}
        self.trail = ()
        self.site = {}         # obj -> allocation description
        self.maybe_null = set()
        self.held = {}         # obj -> (holder object, "holder->field") for an object stored into a field of an object this frame owns
        self.dang = {}         # obj -> (holder object, "holder->field"): released again after it was stored there; the field still points to it

    def copy(self):
        s = State()
        s.env = dict(self.env)
        s.heap = dict(self.heap)
        s.facts = dict(self.facts)
        s.trail = self.trail
        s.site = dict(self.site)
        s.maybe_null = set(self.maybe_null)
        s.held = dict(self.held)
        s.dang = dict(self.dang)
        return s

    def key(self):
        return (tuple(sorted(self.env.items())), tuple(sorted(self.heap.items())), tuple(sorted(self.facts.items())),
                tuple(sorted(self.maybe_null)), tuple(sorted(self.held.items())), tuple(sorted(self.dang.items())))

    def refs(self, obj):
        return [l for l, o in self.env.items() if o == obj]

    def gc(self):
        """forget dead objects: released or moved and no longer referenced"""
        live = set(self.env.values())
        for o in list(self.heap):
            if o not in live and self.heap[o] in ("F", "M"):
                del self.heap[o]
                self.site.pop(o, None)
                self.maybe_null.discard(o)


class Summary:
    """Effect of a callee on the objects behind its pointer-to-pointer arguments, keyed by
    return class.  outcomes: list of (class, {arg index: effect}) with class 'ok' | 'fail' and
    effect in 'new' (fresh owned object stored), 'null' (released if needed and set NULL),
    'keep' (untouched), 'new?' (fresh object or NULL)."""

    def __init__(self, outcomes, ret_err=True, consumes=(), needs=()):
        self.outcomes = outcomes
        self.ret_err = ret_err
        self.consumes = consumes     # argument indices whose pointee objects are consumed (moved) on success
        self.needs = needs           # argument indices (`&obj`) whose object must exist at the call: the callee dereferences it


# functions whose contract is to release (or take over) what they are given
DESTRUCTORS = ("econf_freeFile", "econf_freeArray", "econf_freeExtValue", "econf_freeFilep", "econf_freeArrayp", "free_buffer", "free_groups",
               "nftw_remove")


class OwnAnalysis:
    def __init__(self, prog, fn, summaries, fresh_funcs=(), maybe_null_funcs=(), track_fields=(), entry_out="caller",
                 err_vars=("error", "t_err", "ret", "retval", "econf_error"), opaque_out=()):
        self.prog, self.fn, self.cfg = prog, fn, fn.cfg
        self.summaries = summaries
        self.fresh_funcs = set(fresh_funcs)
        self.maybe_null_funcs = set(maybe_null_funcs)
        self.track_fields = set(track_fields)
        self.err_vars = set(err_vars)
        # every local of the error type / every int local that receives a call result can carry a verdict
        for name, d in fn.local_decls().items():
            if d.get("ct") in ("enum econf_err",):
                self.err_vars.add(name)
        for n in fn.nodes:
            if n.k == "DeclRefExpr" and n.j.get("ct") == "enum econf_err" and n.j.get("dk") == "local":
                self.err_vars.add(n.j["name"])
        # flag variables: int/bool locals that only ever receive integer constants (init_keyfile = 1; found = true)
        from . import query as _q
        consts, spoiled = {}, set()
        for n in fn.walk():
            if n.k == "DeclStmt":
                for d in n.j.get("decls", []):
                    if d.get("ct") in ("int", "_Bool", "bool", "unsigned int") and d.get("init", -1) >= 0:
                        (consts.setdefault(d["name"], True) if fn.nodes[d["init"]].const_value() is not None else spoiled.add(d["name"]))
                    elif d.get("ct") in ("int", "_Bool", "bool", "unsigned int"):
                        consts.setdefault(d["name"], True)
        for lhs, rhs, st2, kind in _q.stores(fn):
            l = lhs.strip()
            if l.k == "DeclRefExpr" and l.j.get("dk") == "local":
                if kind != "=" or rhs is None or rhs.const_value() is None:
                    spoiled.add(l.j["name"])
        for n in fn.walk():
            if n.k == "UnaryOperator" and n.j.get("op") == "&" and n.children and n.children[0].strip().k == "DeclRefExpr":
                spoiled.add(n.children[0].strip().j["name"])
        for name in consts:
            if name not in spoiled:
                self.err_vars.add(name)
        self.findings = {}
        self.exit_states = []      # (return node, state)
        self.entry_out = entry_out
        self.counter = 0
        self.truncated = False
        self.pp_params = [p["name"] for p in fn.params if p.get("ct", "").endswith("**") or p.get("ct", "").endswith("***")]
        # a `char **` that is only read is a list of strings lent by the caller, not an out-parameter
        written_through = set()
        for n in fn.walk():
            if n.k == "BinaryOperator" and n.j.get("op") == "=":
                l = n.children[0].strip()
                if l.k == "UnaryOperator" and l.j.get("op") == "*" and l.children[0].strip().k == "DeclRefExpr":
                    written_through.add(l.children[0].strip().j.get("name"))
            if n.k == "CallExpr":
                for a in n.call_args():
                    if a.strip().k == "DeclRefExpr" and a.strip().j.get("dk") == "param":
                        written_through.add(a.strip().j.get("name"))      # handed on: the callee may write through it
        self.pp_params = [p for p in self.pp_params if not (
            (fn.param(p) or {}).get("ct") in ("char **", "const char **", "char *const *") and p not in written_through)]
        self.ptr_locals = set()
        for name, d in fn.local_decls().items():
            ct = d.get("ct", "")
            if ct.endswith("*") and not d.get("static"):
                self.ptr_locals.add(name)
        self.cleanup = {name: d["cleanup"] for name, d in fn.local_decls().items() if d.get("cleanup")}
        self.ptr_locals = self._interesting(self.ptr_locals)
        self.is_destructor = fn.name.startswith(("econf_free", "free_", "econf_freeArray")) or fn.name in DESTRUCTORS
        self.released_params = set()
        for c in fn.calls(tuple(RELEASERS)):
            for a in c.call_args():
                a2 = a.strip()
                if a2.k == "DeclRefExpr" and a2.j.get("dk") == "param":
                    self.released_params.add(a2.j["name"])
        # ... or are copied into a pointer local (which may then be released: freeing what the caller lent)
        pnames = set(p["name"] for p in fn.params if (p.get("ct") or "").endswith("*") and p["name"] not in self.pp_params)
        for lhs, rhs, st2 in fn.assignments():
            r = rhs.strip()
            if r.k == "DeclRefExpr" and r.j.get("dk") == "param" and r.j.get("name") in pnames:
                nm = lhs["name"] if isinstance(lhs, dict) else (lhs.strip().j.get("name") if lhs.strip().k == "DeclRefExpr" else None)
                if nm in self.ptr_locals:
                    self.released_params.add(r.j["name"])
        # block-scoped locals die when their loop iteration ends
        self.loop_scoped = {}
        for n in fn.walk():
            if n.k in ("WhileStmt", "ForStmt", "DoStmt"):
                hid = self.cfg.loop_header(n)
                if hid is None:
                    continue
                hb = [self.cfg.blocks[hid]]
                body = n.child("body")
                names = set()
                if body is not None:
                    for x in body.walk():
                        if x.k == "DeclStmt":
                            for d in x.j.get("decls", []):
                                names.add(d["name"])
                inside = set(self.cfg.natural_loop(hb[0].id))
                for b2 in self.cfg.blocks.values():
                    probe = (b2.elems[:1] or []) + ([b2.term] if b2.term is not None else [])
                    if any(x.within(n) for x in probe):
                        inside.add(b2.id)
                self.loop_scoped[hb[0].id] = (names & self.ptr_locals, inside)

    def _interesting(self, cands):
        """only locals that can own something: assigned from an allocator / fresh function / releaser result,
        passed to a releaser, address passed to a routine that stores an allocation, or aliases of such"""
        fn = self.fn
        keep = set()
        alloc_like = set(ALLOCATORS) | self.fresh_funcs | set(RELEASERS)

        def callee_of(e):
            e = e.strip()
            if e.k == "ConditionalOperator":
                return callee_of(e.child("then")) or callee_of(e.child("else"))
            if e.k == "CallExpr":
                return e.j.get("callee") if e.j.get("callee") in alloc_like else None
            return None
        assigns = []
        for lhs, rhs, st in fn.assignments():
            name = lhs["name"] if isinstance(lhs, dict) else (lhs.strip().j.get("name") if lhs.strip().k == "DeclRefExpr" else None)
            if name in cands:
                assigns.append((name, rhs))
                if callee_of(rhs):
                    keep.add(name)
        for c in fn.calls():
            cn = c.j.get("callee")
            for a in c.call_args():
                s2 = a.strip()
                if cn in RELEASERS and s2.k == "DeclRefExpr" and s2.j.get("name") in cands:
                    keep.add(s2.j["name"])
                if s2.k == "UnaryOperator" and s2.j.get("op") == "&":
                    i = s2.children[0].strip()
                    if i.k == "DeclRefExpr" and i.j.get("name") in cands and (cn in self.summaries or cn in ("asprintf", "vasprintf", "scandir", "getline")):
                        keep.add(i.j["name"])
        changed = True
        while changed:
            changed = False
            for name, rhs in assigns:
                r = rhs.strip()
                if r.k == "DeclRefExpr" and r.j.get("name") in keep and name not in keep:
                    keep.add(name)
                    changed = True
                if name in keep and r.k == "DeclRefExpr" and r.j.get("name") in cands and r.j["name"] not in keep:
                    keep.add(r.j["name"])
                    changed = True
        return keep | set(self.cleanup)

    # ---- locations -------------------------------------------------------------------------------
    def loc_of(self, n):
        """location key of an lvalue expression, or None when not tracked"""
        s = n.strip()
        if s.k == "BinaryOperator" and s.j.get("op") == "=":
            return self.loc_of(s.children[0])
        if s.k == "DeclRefExpr" and s.j.get("dk") == "local" and s.j["name"] in self.ptr_locals:
            return s.j["name"]
        if s.k == "DeclRefExpr" and s.j.get("dk") == "param" and s.j["name"] in self.released_params:
            return s.j["name"]
        if s.k == "UnaryOperator" and s.j.get("op") == "*":
            i = s.children[0].strip()
            if i.k == "DeclRefExpr" and i.j.get("dk") == "param" and i.j["name"] in self.pp_params:
                return "*" + i.j["name"]
        if s.k == "MemberExpr" and s.j.get("member") in self.track_fields:
            return render(s)
        return None

    def report(self, kind, node, loc, detail, st):
        f = Finding(kind, self.fn, node, loc, detail, list(st.trail[-12:]))
        self.findings.setdefault(f.key, f)

    def new_obj(self, st, node, what, maybe_null=False):
        base = "o%d@%s" % (node.id, node.j.get("line"))
        oid = base
        for gen in range(4):
            cand = base if gen == 0 else "%s#%d" % (base, gen)
            if cand not in st.heap or (st.heap[cand] in ("F", "M") and not st.refs(cand)) or not st.refs(cand) and st.heap[cand] != "O":
                oid = cand
                break
        else:
            oid = base
        st.heap[oid] = "O"
        st.site[oid] = what
        if maybe_null:
            st.maybe_null.add(oid)
        else:
            st.maybe_null.discard(oid)
        return oid

    # ---- transfer ----------------------------------------------------------------------------------
    def assign(self, st, loc, value, node):
        """env[loc] := value (object id / NULL / UNK), with leak-by-overwrite detection"""
        old = st.env.get(loc)
        if old not in (None, NULL, UNK) and st.heap.get(old) == "O" and value != old:
            others = [l for l in st.refs(old) if l != loc]
            if not others:
                self.report("leak-by-overwrite", node, loc,
                            "`%s` still owns %s when it is overwritten" % (loc, st.site.get(old, "an allocation")), st)
                st.heap[old] = "M"
        st.env[loc] = value

    def release(self, st, loc, node, callee):
        obj = st.env.get(loc)
        if obj in (None, UNK, NULL):
            return
        h = st.heap.get(obj)
        if h == "F":
            self.report("double-free", node, loc, "%s(%s): %s was already released" % (callee, loc, st.site.get(obj, "the object")), st)
        elif h == "M" and obj in st.held and st.heap.get(st.held[obj][0]) == "O" and callee == "free":
            # stored into a field of an object this frame made and still owns, and now taken back (an error exit that releases the parts
            # one by one and the holder last): legitimate as long as the holder does not outlive it with the field unchanged, and the
            # holder is not released by a function that releases its fields as well - both are looked at where they would happen
            st.dang[obj] = st.held.pop(obj)
        elif h == "M":
            self.report("free-after-move", node, loc, "%s(%s): ownership of %s was handed over before" % (callee, loc, st.site.get(obj, "the object")), st)
        elif h == "C" and str(obj).startswith("caller:") and str(obj)[7:] not in self.pp_params and not self.is_destructor:
            self.report("free-of-borrowed", node, loc,
                        "%s(%s): this is %s - memory the caller (or a process-wide list) still owns and will use or release again" % (
                            callee, loc, st.site.get(obj, "the caller's object")), st)
        if callee in DESTRUCTORS or callee in ("econf_freeFile", "econf_freeExtValue"):
            for o9, (h9, ft9) in list(st.dang.items()):
                if h9 == obj:
                    self.report("double-free", node, loc, "%s(%s) releases `%s` as well, which was already released (%s)" % (
                        callee, loc, ft9, st.site.get(o9, "the object")), st)
                    del st.dang[o9]
        st.heap[obj] = "F"

    def eval_rhs(self, st, e, node):
        """abstract value of a pointer expression: object id / NULL / UNK; may allocate"""
        if e.is_null_const():
            return NULL
        s = e.strip()
        if s.k == "ConditionalOperator":
            a = self.eval_rhs(st, s.child("then"), node)
            b = self.eval_rhs(st, s.child("else"), node)
            if a == b:
                return a
            if a == NULL and b not in (UNK,):
                st.maybe_null.add(b)
                return b
            if b == NULL and a not in (UNK,):
                st.maybe_null.add(a)
                return a
            if a not in (UNK, NULL) and b not in (UNK, NULL) and st.heap.get(a) == "O" and st.heap.get(b) == "O":
                st.heap.pop(b, None)       # two allocations, one of them made: one abstract object
                return a
            return UNK
        if s.k == "CallExpr":
            c = s.j.get("callee")
            if c in ALLOCATORS:
                if c == "realloc":
                    a0 = self.loc_of(s.call_args()[0])
                    if a0 and st.env.get(a0) not in (None, NULL, UNK):
                        return st.env[a0]          # same object, grown
                    return self.new_obj(st, s, "%s() at %s" % (c, s.where))
                return self.new_obj(st, s, "%s() at %s" % (c, s.where), maybe_null=ALLOCATORS[c])
            if c in self.fresh_funcs:
                return self.new_obj(st, s, "%s() at %s" % (c, s.where), maybe_null=c in self.maybe_null_funcs)
            if c in RELEASERS and c in RELEASE_RETURNS_NULL:
                return NULL
            if c in ("__builtin_alloca", "alloca"):
                return UNK
            # a function that hands its argument back (trim(s), stripbrackets(s), strcpy(d, ..)): the value is the argument's
            k9 = _returns_param(self.prog, c) if getattr(self, "prog", None) is not None else None
            if k9 is not None and k9 < len(s.call_args()):
                return self.eval_rhs(st, s.call_args()[k9], node)
            return UNK
        loc = self.loc_of(s)
        if loc is not None:
            v = st.env.get(loc, UNK)
            if v not in (NULL, UNK) and st.heap.get(v) == "F":
                self.report("use-after-free", node, loc, "`%s` is used after %s was released" % (loc, st.site.get(v, "its object")), st)
            return v
        return UNK

    def result_var(self, c):
        up = c.up()
        if up is not None and up.k == "BinaryOperator" and up.j.get("op") == "=" and up.children[1].strip() is c:
            return render(up.children[0])
        if up is not None and up.k == "DeclStmt":
            for d in up.j.get("decls", []):
                if d.get("init", -1) >= 0 and self.fn.nodes[d["init"]].strip() is c:
                    return d["name"]
        return None

    def handle_call(self, st, c, states_out):
        """Effects of a call statement that are not assignments: releases, out-parameters, summaries.
        May fork: appends extra states to states_out and returns the (possibly modified) main state list."""
        name = c.j.get("callee")
        args = c.call_args()
        if name in RELEASERS:
            idx = RELEASERS[name]
            if idx < len(args):
                loc = self.loc_of(args[idx])
                if loc is not None:
                    self.release(st, loc, c, name)
            return [st]
        if name in ("asprintf", "vasprintf") and args:
            a = args[0].strip()
            if a.k == "UnaryOperator" and a.j.get("op") == "&":
                loc = self.loc_of(a.children[0])
                if loc is not None:
                    self.assign(st, loc, self.new_obj(st, c, "asprintf() at %s" % c.where), c)
            rv = self.result_var(c)
            if rv:
                st.facts[rv] = "NONNEG"      # no allocation failure
            return [st]
        if name == "scandir" and len(args) > 1:
            a = args[1].strip()
            rv = self.result_var(c)
            if a.k == "UnaryOperator" and a.j.get("op") == "&":
                loc = self.loc_of(a.children[0])
                if loc is not None:
                    s2 = st.copy()
                    self.assign(st, loc, self.new_obj(st, c, "scandir() result at %s" % c.where), c)
                    if rv:
                        st.facts[rv] = "POS"
                        s2.facts[rv] = "NONPOS"
                    s2.trail = s2.trail + ("%s: scandir() found nothing" % c.where,)
                    return [st, s2]
            return [st]
        if name == "getline" and args:
            return [st]     # grows the same buffer
        summ = self.summaries.get(name)
        if summ is None:
            # use-after-free through arguments
            for a in args:
                loc = self.loc_of(a)
                if loc is not None:
                    v = st.env.get(loc)
                    if v not in (None, NULL, UNK) and st.heap.get(v) == "F":
                        self.report("use-after-free", c, loc, "`%s` is passed to %s after %s was released" % (loc, name, st.site.get(v, "its object")), st)
            return [st]
        # which variable receives the result?
        errvar = None
        up = c.up()
        if up is not None and up.k == "BinaryOperator" and up.j.get("op") == "=" and up.children[1].strip() is c:
            errvar = render(up.children[0])
        elif up is not None and up.k == "DeclStmt":
            for d in up.j.get("decls", []):
                if d.get("init", -1) >= 0 and self.fn.nodes[d["init"]].strip() is c:
                    errvar = d["name"]
        for ai in getattr(summ, "needs", ()):
            if ai < len(args):
                a9 = args[ai].strip()
                loc9 = self.loc_of(a9.children[0]) if a9.k == "UnaryOperator" and a9.j.get("op") == "&" else None
                if loc9 is not None and st.env.get(loc9) == NULL:
                    self.report("null-object", c, loc9, "%s() is handed `&%s` while %s is NULL (an earlier call released the object and set the pointer to NULL): "
                                "the callee dereferences it" % (name, loc9, loc9), st)
        outs = []
        outcomes = summ.outcomes(c) if callable(summ.outcomes) else summ.outcomes
        for cls, effects in outcomes:
            s2 = st.copy()
            ok = True
            for ai, eff in effects.items():
                if ai >= len(args):
                    continue
                a = args[ai].strip()
                if a.k == "UnaryOperator" and a.j.get("op") == "&":
                    loc = self.loc_of(a.children[0])
                else:
                    # pointer-to-pointer parameter passed through: the location is *param
                    loc = None
                    if a.k == "DeclRefExpr" and a.j.get("dk") == "param" and a.j["name"] in self.pp_params:
                        loc = "*" + a.j["name"]
                if loc is None:
                    continue
                if eff == "new":
                    self.assign(s2, loc, self.new_obj(s2, c, "object created by %s() at %s" % (name, c.where)), c)
                elif eff == "new?":
                    self.assign(s2, loc, self.new_obj(s2, c, "object created by %s() at %s" % (name, c.where), maybe_null=True), c)
                elif eff == "null":
                    old = s2.env.get(loc)
                    if old not in (None, NULL, UNK):
                        s2.heap[old] = "F"
                    s2.env[loc] = NULL
                elif eff == "replace":
                    old = s2.env.get(loc)
                    if old not in (None, NULL, UNK):
                        s2.heap[old] = "F"
                    s2.env[loc] = self.new_obj(s2, c, "object created by %s() at %s" % (name, c.where))
                elif eff == "keep":
                    pass
                elif eff == "consume":
                    old = s2.env.get(loc)
                    if old not in (None, NULL, UNK):
                        s2.heap[old] = "M"
            if errvar is not None and summ.ret_err:
                s2.facts[errvar] = "Z" if cls == "ok" else "NZ"
            if errvar is None and summ.ret_err and up is not None and up.k == "ReturnStmt":
                s2.facts["$ret"] = "Z" if cls == "ok" else "NZ"       # return f(...): the verdict handed on
            s2.trail = s2.trail + ("%s: %s() -> %s" % (c.where, name, cls),)
            outs.append(s2)
        return outs

    def exec_elem(self, st, n):
        """returns list of successor states after evaluating CFG element n"""
        k = n.k
        if k == "BinaryOperator" and n.j.get("op") == "=":
            lhs, rhs = n.children[0], n.children[1]
            loc = self.loc_of(lhs)
            r = rhs.strip()
            # error variable facts
            lv = render(lhs)
            if lv in self.err_vars and loc is None:
                if not (r.k == "CallExpr" and r.j.get("callee") in self.summaries):
                    cv = rhs.const_value()
                    if r.k == "DeclRefExpr" and r.j.get("dk") == "enum":
                        st.facts[lv] = "Z" if r.j.get("val") == 0 else (r.j["name"] if r.j["name"] in ("ECONF_NOFILE", "ECONF_NOMEM") else "NZ")
                    elif cv is not None:
                        st.facts[lv] = "Z" if cv == 0 else "NZ"
                    elif r.k == "DeclRefExpr" and render(r) in st.facts:
                        st.facts[lv] = st.facts[render(r)]        # copy of another verdict variable
                    elif r.k == "CallExpr":
                        if r.j.get("callee") not in ("asprintf", "vasprintf", "scandir"):     # their call element has just set the fact
                            st.facts.pop(lv, None)
                    else:
                        st.facts.pop(lv, None)
            if loc is not None:
                if r.k == "CallExpr" and r.j.get("callee") in RELEASERS and r.j.get("callee") in RELEASE_RETURNS_NULL:
                    # x = econf_free(x): the call element already released it
                    self.assign(st, loc, NULL, n)
                    return [st]
                val = self.eval_rhs(st, rhs, n)
                self.assign(st, loc, val, n)
                return [st]
            # store of a tracked pointer into something untracked = move (a plain local that is not tracked is just a second name
            # for the duration of the function: the owner stays the tracked variable)
            src = self.loc_of(rhs)
            l9 = lhs.strip()
            if l9.k == "DeclRefExpr" and l9.j.get("dk") == "local" and rhs.strip().k == "BinaryOperator" and rhs.strip().j.get("op") == "=":
                src = None          # a = b = alloc(): b stays the owner
            elif l9.k == "DeclRefExpr" and l9.j.get("dk") == "local" and (l9.j.get("ct") or "").endswith("*") and src is not None \
                    and st.env.get(src) not in (None, NULL, UNK):
                # a plain local that was not followed so far becomes a second name of the object (it is followed from here on);
                # the object is not given away by that
                self.ptr_locals.add(l9.j["name"])
                st.env[l9.j["name"]] = st.env.get(src)
                return [st]
            lv9 = render(lhs)
            for o9, (h9, ft9) in list(st.dang.items()):
                if ft9 == lv9:
                    del st.dang[o9]           # the field gets another value
            if src is not None and rhs.strip().j.get("ct", "").endswith("*"):
                obj = st.env.get(src)
                if obj not in (None, NULL, UNK):
                    if st.heap.get(obj) == "F":
                        self.report("use-after-free", n, src, "`%s` is stored after %s was released" % (src, st.site.get(obj, "its object")), st)
                    elif st.heap.get(obj) == "O":
                        st.heap[obj] = "M"
                        if l9.k == "MemberExpr" and l9.children:
                            b9 = l9.children[0].strip()
                            hl9 = self.loc_of(b9) if l9.j.get("arrow") else None
                            hobj9 = st.env.get(hl9) if hl9 is not None else None
                            if hobj9 not in (None, NULL, UNK) and st.heap.get(hobj9) == "O":
                                st.held[obj] = (hobj9, lv9)
            return [st]
        if k == "DeclStmt":
            for d in n.j.get("decls", []):
                if d.get("init", -1) >= 0 and d["name"] in self.ptr_locals:
                    init = self.fn.nodes[d["init"]]
                    if d["name"] in self.cleanup:
                        # the previous iteration's object was released by the compiler when the scope was left
                        old = st.env.get(d["name"])
                        if old not in (None, NULL, UNK) and st.heap.get(old) == "O":
                            st.heap[old] = "F"
                    val = self.eval_rhs(st, init, n)
                    st.env[d["name"]] = val
                elif d["name"] in self.ptr_locals:
                    st.env[d["name"]] = UNK
                if d.get("init", -1) >= 0 and d["name"] in self.err_vars:
                    init = self.fn.nodes[d["init"]].strip()
                    if init.k == "DeclRefExpr" and init.j.get("dk") == "enum":
                        st.facts[d["name"]] = "Z" if init.j.get("val") == 0 else (init.j["name"] if init.j["name"] in ("ECONF_NOFILE", "ECONF_NOMEM") else "NZ")
                    elif init.k == "DeclRefExpr" and render(init) in st.facts:
                        st.facts[d["name"]] = st.facts[render(init)]
                    elif init.const_value() is not None:
                        st.facts[d["name"]] = "Z" if init.const_value() == 0 else "NZ"
                    elif not (init.k == "CallExpr" and (init.j.get("callee") in self.summaries or init.j.get("callee") in ("asprintf", "vasprintf", "scandir"))):
                        st.facts.pop(d["name"], None)
            return [st]
        if k == "CallExpr":
            return self.handle_call(st, n, None)
        if k == "ReturnStmt":
            if n.children and not n.j.get("inlined_return"):        # the `return` of an inlined helper hands nothing to a caller
                loc = self.loc_of(n.children[0])
                if loc is not None:
                    obj = st.env.get(loc)
                    if obj not in (None, NULL, UNK):
                        if st.heap.get(obj) == "F":
                            self.report("use-after-free", n, loc, "returns `%s` after it was released" % loc, st)
                        elif st.heap.get(obj) == "O":
                            st.heap[obj] = "M"
            return [st]
        return [st]

    def refine(self, st, lit):
        """state after taking an edge with literal lit; None when infeasible"""
        if lit is None:
            return st
        n = lit.node
        if lit.kind == "truth":
            loc = self.loc_of(n)
            if loc is not None:
                v = st.env.get(loc, UNK)
                if lit.pol:          # pointer is non-NULL
                    if v == NULL:
                        return None
                    if v not in (UNK,):
                        st.maybe_null.discard(v)
                else:                # pointer is NULL
                    if v not in (NULL, UNK):
                        if v in st.maybe_null:
                            st.heap.pop(v, None)
                            st.maybe_null.discard(v)
                            for l in st.refs(v):
                                st.env[l] = NULL
                        elif st.heap.get(v) in ("O", "M", "C"):
                            return None      # fresh allocation assumed non-NULL: OOM path pruned
                        else:
                            st.env[loc] = NULL
                    else:
                        st.env[loc] = NULL
                return st
            atom = lit.atom
            if atom in self.err_vars:
                f = st.facts.get(atom)
                if lit.pol:
                    if f == "Z":
                        return None
                    if f is None:
                        st.facts[atom] = "NZ"
                else:
                    if f is not None and f != "Z":
                        return None
                    st.facts[atom] = "Z"
            return st
        if lit.kind == "lt":
            l, r = render(lit.lhs), render(lit.rhs)
            lc, rc = lit.lhs.const_value(), lit.rhs.const_value()
            # 0 < n   /  n < 0  /  n < 1
            if lc == 0 and r in st.facts:
                f = st.facts[r]
                if lit.pol and f == "NONPOS":
                    return None
                if not lit.pol and f == "POS":
                    return None
            if rc == 0 and l in st.facts:
                f = st.facts[l]
                if lit.pol and f in ("NONNEG", "POS", "Z"):
                    return None
            # `if (asprintf(&p, ..) < 0)`: the failure edge is the out-of-memory path, pruned like a NULL from malloc
            l0 = lit.lhs.strip()
            if rc == 0 and lit.pol and l0.k == "CallExpr" and l0.j.get("callee") in ("asprintf", "vasprintf"):
                return None
            return st
        if lit.kind == "eq":
            a, b = render(lit.lhs), render(lit.rhs)
            if lit.rhs.const_value() == -1 and a in st.facts and st.facts[a] == "NONNEG" and lit.pol:
                return None
            if lit.rhs.const_value() == -1 and lit.pol and lit.lhs.strip().k == "CallExpr" and lit.lhs.strip().j.get("callee") in ("asprintf", "vasprintf"):
                return None
            for var, other, on in ((a, b, lit.rhs), (b, a, lit.lhs)):
                if var in self.err_vars:
                    os_ = on.strip()
                    if os_.k == "DeclRefExpr" and os_.j.get("dk") == "enum":
                        cname, cval = os_.j["name"], os_.j.get("val")
                        f = st.facts.get(var)
                        if lit.pol:
                            if cval == 0:
                                if f not in (None, "Z"):
                                    return None
                                st.facts[var] = "Z"
                            else:
                                if f == "Z" or (f not in (None, "NZ") and f != cname):
                                    return None
                                st.facts[var] = cname
                        else:
                            if cval == 0:
                                if f == "Z":
                                    return None
                                if f is None:
                                    st.facts[var] = "NZ"
                            else:
                                if f == cname:
                                    return None
                        return st
            return st
        return st

    # ---- driver ------------------------------------------------------------------------------------
    def initial(self):
        st = State()
        for p in self.pp_params:
            if self.entry_out == "caller":
                oid = "caller:" + p
                st.heap[oid] = "C"
                st.site[oid] = "the caller's object behind %s" % p
                st.maybe_null.add(oid)
                st.env["*" + p] = oid
            else:
                st.env["*" + p] = UNK
        for p in self.released_params:
            oid = "caller:" + p
            st.heap[oid] = "C"
            st.site[oid] = "the object passed as %s" % p
            st.maybe_null.add(oid)
            st.env[p] = oid
        return st

    def run(self):
        cfg = self.cfg
        states = {b: {} for b in cfg.blocks}
        pending = {b: [] for b in cfg.blocks}
        init = self.initial()
        states[cfg.entry][init.key()] = init
        pending[cfg.entry].append(init)
        work = [cfg.entry]
        iters = 0
        exit_seen = set()
        while work:
            b = work.pop(0)
            iters += 1
            if iters > 200000:
                self.truncated = True
                break
            blk = cfg.blocks[b]
            cur = [s.copy() for s in pending[b]]
            pending[b] = []
            for n in blk.elems:
                nxt = []
                for s in cur:
                    nxt.extend(self.exec_elem(s, n))
                cur = nxt
                if n.k in ("CallExpr", "BinaryOperator", "DeclStmt"):
                    seen_k = {}
                    for s in cur:
                        s.gc()
                        seen_k.setdefault(s.key(), s)
                    cur = list(seen_k.values())
            for i, succ in enumerate(blk.succs):
                if succ is None:
                    continue
                lit = cfg.edge_lit(b, i)
                for s in cur:
                    s2 = self.refine(s.copy(), lit)
                    if s2 is None:
                        continue
                    if lit is not None and blk.cond is not None:
                        s2.trail = s2.trail + ("%s: %s" % (blk.cond.where, lit),)
                    if succ == cfg.exit:
                        ret = cfg.return_of_block(b)
                        ek = (b, s2.key())
                        if ek in exit_seen:
                            continue
                        exit_seen.add(ek)
                        self.at_exit(s2, ret, b)
                        continue
                    for hb2, (names, body) in self.loop_scoped.items():
                        if names and ((succ == hb2 and b in body) or (b in body and succ not in body)):
                            for v in names:
                                old = s2.env.pop(v, None)
                                if v in self.cleanup and old not in (None, NULL, UNK) and s2.heap.get(old) == "O":
                                    s2.heap[old] = "F"
                    s2.gc()
                    k = s2.key()
                    if k not in states[succ]:
                        if len(states[succ]) >= MAX_STATES:
                            self.truncated = True
                            continue
                        states[succ][k] = s2
                        pending[succ].append(s2)
                        if succ not in work:
                            work.append(succ)
        return self

    def at_exit(self, st, ret, b):
        node = ret if ret is not None else (self.cfg.blocks[b].elems[-1] if self.cfg.blocks[b].elems else self.fn.body)
        if ret is not None and query.returned_constant(ret) == "ECONF_NOMEM":
            return          # allocation failure is outside the fault list (DESIGN 0.4)
        if ret is not None and ret.children and st.facts.get(render(ret.children[0])) == "ECONF_NOMEM":
            return
        # cleanup-attribute variables are released by the compiler
        for v in self.cleanup:
            obj = st.env.get(v)
            if obj not in (None, NULL, UNK) and st.heap.get(obj) == "O":
                st.heap[obj] = "F"
        handed = set()
        for p in self.pp_params:
            obj = st.env.get("*" + p)
            if obj not in (None, NULL, UNK):
                handed.add(obj)
                if st.heap.get(obj) == "F":
                    self.report("dangling-out-pointer", node, "*" + p,
                                "`*%s` still points to %s, which was released: the caller will free or use it again" % (p, st.site.get(obj, "an object")), st)
        for loc, obj in st.env.items():
            if obj not in (None, NULL, UNK) and any(loc.startswith("(*%s)" % p) or loc.startswith("%s->" % p) for p in self.pp_params + [q["name"] for q in self.fn.params]):
                handed.add(obj)     # stored in a field of an object the caller holds
        for o9, (h9, ft9) in st.dang.items():
            if st.heap.get(h9) in ("O", "M", "C"):
                self.report("dangling-out-pointer", node, ft9,
                            "`%s` still points to %s, which was released, and the object holding it lives on: whoever gets it will free or use it again" % (
                                ft9, st.site.get(o9, "an object")), st)
        for obj, h in st.heap.items():
            if h == "O" and obj not in handed:
                refs = st.refs(obj)
                self.report("leak", node, refs[0] if refs else obj.split("@")[0],
                            "%s is still owned by `%s` at this exit and is neither released nor handed over" % (
                                st.site.get(obj, "an allocation"), refs[0] if refs else "nothing"), st)
        self.exit_states.append((ret, st))
