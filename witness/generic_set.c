/* Witness unit for C08.V8 (never linked, never run): one function per argument type that the documentation of
   econf_setValue() promises.  The rule reads from the type-checked tree which typed setter the generic macro of
   /repo/include/libeconf.h selects for each of them. */
#include <stdint.h>
#include "libeconf.h"

econf_err w_int(econf_file *kf, int v) { return econf_setValue(kf, "g", "k", v); }
econf_err w_long(econf_file *kf, long v) { return econf_setValue(kf, "g", "k", v); }
econf_err w_uint(econf_file *kf, unsigned int v) { return econf_setValue(kf, "g", "k", v); }
econf_err w_ulong(econf_file *kf, unsigned long v) { return econf_setValue(kf, "g", "k", v); }
econf_err w_float(econf_file *kf, float v) { return econf_setValue(kf, "g", "k", v); }
econf_err w_double(econf_file *kf, double v) { return econf_setValue(kf, "g", "k", v); }
econf_err w_string(econf_file *kf, char *v) { return econf_setValue(kf, "g", "k", v); }
econf_err w_int32(econf_file *kf, int32_t v) { return econf_setValue(kf, "g", "k", v); }
econf_err w_int64(econf_file *kf, int64_t v) { return econf_setValue(kf, "g", "k", v); }
econf_err w_uint32(econf_file *kf, uint32_t v) { return econf_setValue(kf, "g", "k", v); }
econf_err w_uint64(econf_file *kf, uint64_t v) { return econf_setValue(kf, "g", "k", v); }
